"""C02: concurrent step-file writers and readers are serialised; no update is lost."""
import itertools
import os
import re
import shutil
import subprocess
import time

from .. import core
from ..core import hexb

MODULES = ["Robsd.Props.C02"]
GENS = ["StepFields"]
HEADER = b"step,name,exit,duration,delta,log,user,time,skip\n"
TEMPLATE = b"${step} ${name} ${exit}\n"


def full_row(i, name, ex):
    return ["name=%s" % name, "exit=%d" % ex, "duration=1", "user=root", "time=17"]


class Sched:
    """drives real robsd-step processes through the ROBSD_VERIF_SYNC points
    (the n:th point of process i appears as a line of <dir>/report.<i>; the
    process waits for <dir>/go.<i>.<n>)"""
    counter = 0

    def __init__(self, ctx, step, path, specs):
        Sched.counter += 1
        self.d = os.path.join(ctx.scratch, "sync%d" % Sched.counter)
        shutil.rmtree(self.d, ignore_errors=True)
        os.makedirs(self.d)
        self.procs = []
        self.seen = {}        # id -> number of reports consumed
        self.done = set()
        for i, sp in enumerate(specs):
            env = dict(os.environ, ROBSD_VERIF_SYNC=self.d, ROBSD_VERIF_SYNC_ID=str(i), ASAN_OPTIONS="detect_leaks=0")
            if sp[0] == "W":
                argv = [step, "-W", "-f", path, "-i", str(sp[1]), "--"] + sp[2]
                p = subprocess.Popen(argv, stdin=subprocess.DEVNULL, stdout=subprocess.PIPE, stderr=subprocess.PIPE, env=env)
            else:
                argv = [step, "-R", "-f", path] + sp[1]
                p = subprocess.Popen(argv, stdin=subprocess.PIPE, stdout=subprocess.PIPE, stderr=subprocess.PIPE, env=env)
                p.stdin.write(TEMPLATE)
                p.stdin.close()
                p.stdin = None
            self.procs.append(p)
            self.seen[i] = 0
        for i in range(len(specs)):
            self.wait_report(i, 10)

    def reports(self, i):
        try:
            return [l.split()[1] for l in open(os.path.join(self.d, "report.%d" % i)).read().split("\n") if len(l.split()) == 2]
        except OSError:
            return []

    def wait_report(self, i, timeout):
        """the next point process i reports, 'exit' when it terminated, None on timeout (blocked)"""
        t0 = time.time()
        while time.time() - t0 < timeout:
            r = self.reports(i)
            if len(r) > self.seen[i]:
                self.seen[i] += 1
                return r[self.seen[i] - 1]
            if self.procs[i].poll() is not None:
                r = self.reports(i)
                if len(r) > self.seen[i]:
                    continue
                self.done.add(i)
                return "exit"
            time.sleep(0.001)
        return None

    def go(self, i, timeout=5):
        """release process i from the sync point it is waiting at; returns the next point, 'exit' or None"""
        if self.procs[i].poll() is not None:
            return "exit"
        open(os.path.join(self.d, "go.%d.%d" % (i, self.seen[i])), "w").close()
        return self.wait_report(i, timeout)

    def blocked_in_flock(self, i):
        try:
            return open("/proc/%d/syscall" % self.procs[i].pid).read().split()[0] == "73"
        except OSError:
            return False

    def finish(self):
        outs = []
        for i, p in enumerate(self.procs):
            t0 = time.time()
            while p.poll() is None and time.time() - t0 < 10:
                self.go(i, 0.5)
            try:
                out, err = p.communicate(timeout=5)
            except subprocess.TimeoutExpired:
                p.kill()
                out, err = p.communicate()
            outs.append((p.returncode, out, err))
        shutil.rmtree(self.d, ignore_errors=True)
        return outs


# model pc names -> what one model step does in the real process
def real_step(s, i, pc, holder, is_writer_accepting):
    """perform the model step of process i; returns (new pc, new holder)"""
    if pc == "opened":
        if holder is not None:
            return pc, holder
        r = s.go(i)
        assert r == "lock", "process %d reported %r after being released at 'open'" % (i, r)
        return "locked", i
    if pc == "locked":
        r = s.go(i)
        assert r == "read", "process %d reported %r, expected 'read'" % (i, r)
        return "haveRead", holder
    if pc == "haveRead":
        r = s.go(i)
        if r == "truncate":
            return "truncated", holder
        if r == "close":
            # the write was rejected while serialising (nothing was truncated): straight to unlock
            r = s.go(i)
        assert r == "unlock", "process %d reported %r, expected 'truncate' or 'unlock'" % (i, r)
        s.go(i, 1)
        return "done", None
    if pc == "truncated":
        r = s.go(i)
        assert r == "write", "process %d reported %r, expected 'write'" % (i, r)
        return "written", holder
    if pc == "written":
        r = s.go(i)
        assert r == "close", "process %d reported %r, expected 'close'" % (i, r)
        r = s.go(i)
        assert r == "unlock", "process %d reported %r, expected 'unlock'" % (i, r)
        s.go(i, 1)
        return "done", None
    return pc, holder


def serial_results(step, path, c0, specs, order):
    """apply the commands one at a time in `order` with the real binary: (final content, outputs)"""
    open(path, "wb").write(c0)
    outs = {}
    for i in order:
        sp = specs[i]
        if sp[0] == "W":
            r = subprocess.run([step, "-W", "-f", path, "-i", str(sp[1]), "--"] + sp[2], capture_output=True, env=dict(os.environ, ASAN_OPTIONS="detect_leaks=0"))
            outs[i] = (r.returncode, b"")
        else:
            r = subprocess.run([step, "-R", "-f", path] + sp[1], input=TEMPLATE, capture_output=True, env=dict(os.environ, ASAN_OPTIONS="detect_leaks=0"))
            outs[i] = (r.returncode, r.stdout)
    return open(path, "rb").read(), outs


def spec_str(sp):
    if sp[0] == "W":
        return "W:%d:%s" % (sp[1], ";".join(hexb(a.encode()) for a in sp[2]) or ".")
    k, v = sp[1]
    return "R:%s:%s:%s" % ("n" if k == "-n" else "i", hexb(v.encode()) if k == "-n" else v, hexb(TEMPLATE))


def gen_specs(rng, nproc):
    specs = []
    for i in range(nproc):
        k = rng.random()
        if k < 0.65:
            sid = rng.choice([1, 2, 2, 3, 5])
            args = full_row(sid, "p%d" % i, rng.choice([0, 1, 7])) if rng.random() < 0.8 else ["exit=%d" % rng.choice([3, 4])]
            if rng.random() < 0.08:
                args = ["name=bad,comma"] + args[1:]          # a rejected write
            specs.append(("W", sid, args))
        else:
            specs.append(("R", rng.choice([["-i", "1"], ["-i", "-1"], ["-i", "2"], ["-n", "seed"]])))
    return specs


def run(ctx):
    ctx.translate(GENS)
    ctx.lake_build(MODULES)
    ctx.audit(MODULES)
    rng = ctx.rng
    d = ctx.build_repo("plain")
    step = os.path.join(d, "robsd-step")
    work = os.path.join(ctx.scratch, "c02")
    os.makedirs(work, exist_ok=True)
    path = os.path.join(work, "step.csv")
    kinds = {}
    distinct = set()
    reqs, wants, infos = [], [], []
    c0 = HEADER + b"1,seed,0,1,0,,root,17,0\n2,two,0,1,0,,root,17,0\n"

    # ---- X1: the protocol shape, from the system calls the real binary makes on the step file
    open(path, "wb").write(c0)
    for argv, want, stdin in ((["-W", "-f", path, "-i", "3", "--"] + full_row(3, "x", 0), "open lock open read close open-trunc write close unlock close", b""),
                              (["-R", "-f", path, "-i", "1"], "open lock open read close unlock close", TEMPLATE)):
        r = subprocess.run(["strace", "-f", "-e", "trace=openat,flock,read,write,close", step] + argv, input=stdin, capture_output=True)
        fds = {}
        shape = []
        for l in r.stderr.decode(errors="replace").split("\n"):
            m = re.match(r"(?:\[pid\s+\d+\] )?openat\(AT_FDCWD, \"([^\"]*)\", ([A-Z_|]+)[^)]*\)\s+= (\d+)", l)
            if m and m.group(1) == path:
                fds[m.group(3)] = True
                shape.append("open-trunc" if "O_TRUNC" in m.group(2) else "open")
                continue
            m = re.match(r"(?:\[pid\s+\d+\] )?(flock|read|write|close)\((\d+)(?:, ([A-Z_]+))?", l)
            if m and m.group(2) in fds:
                if m.group(1) == "flock":
                    shape.append("lock" if m.group(3) == "LOCK_EX" else "unlock" if m.group(3) == "LOCK_UN" else "flock-" + str(m.group(3)))
                elif m.group(1) == "close":
                    shape.append("close")
                    del fds[m.group(2)]
                else:
                    if not shape or shape[-1] != m.group(1):
                        shape.append(m.group(1))
        got = " ".join(shape)
        kinds["shape"] = kinds.get("shape", 0) + 1
        if got != want:
            ctx.disagreement("system-call shape of robsd-step %s on the step file" % argv[0], dict(observed=got, model_program=want))

    # ---- X2: schedule replay through the sync hook
    nsched = ctx.n(30, 1200)
    for t in range(nsched):
        nproc = 2 if t % 3 else 3
        specs = gen_specs(rng, nproc)
        # a schedule: random interleaving, every process gets enough steps to finish
        sched = []
        for i in range(nproc):
            sched += [i] * 7
        rng.shuffle(sched)
        if t % 5 == 0:
            sched = sorted(sched)          # a serial schedule as control
        open(path, "wb").write(c0)
        try:
            s = Sched(ctx, step, path, specs)
            pcs = {i: "opened" for i in range(nproc)}
            holder = None
            order = []
            tail = [i for _ in range(nproc) for i in range(nproc) for _ in range(8)]
            for i in sched + tail:
                before = pcs[i]
                pcs[i], holder = real_step(s, i, pcs[i], holder, True)
                if before == "opened" and pcs[i] == "locked":
                    order.append(i)
            outs = s.finish()
        except AssertionError as e:
            core.log("C02 schedule %d failed: %s; alive: %s" % (t, e, subprocess.run("ps -eo pid,etime,args | grep '[r]obsd-step' | cut -c1-120", shell=True, capture_output=True, text=True).stdout))
            errs = []
            for p in s.procs:
                try:
                    p.kill()
                    errs.append(p.communicate(timeout=2)[1].decode(errors="replace")[-200:])
                except Exception:
                    pass
            ctx.disagreement("sync-point sequence of the real process vs the model program",
                             dict(specs=specs, sched=sched, error=str(e), stderr=errs, file=open(path, "rb").read().decode(errors="replace")))
            continue
        final = open(path, "rb").read()
        # every process finishes (remaining steps are run by finish()) in some order after the schedule: the lock order continues
        reqs.append("flock %s %s %s" % (hexb(c0), ",".join(map(str, sched + [i for _ in range(nproc) for i in range(nproc) for _ in range(8)])), " ".join(spec_str(sp) for sp in specs)))
        wants.append((final, [(rc, out) for rc, out, err in outs], order))
        infos.append(dict(specs=specs, sched=sched))
        kinds["replay-%d" % nproc] = kinds.get("replay-%d" % nproc, 0) + 1
        # oracle: the final file and every reader's output equal those of SOME serial order (computed with the real binary)
        ok = False
        for perm in itertools.permutations(range(nproc)):
            f2, o2 = serial_results(step, path, c0, specs, perm)
            if f2 == final and all(o2[i][1] == outs[i][1] and (o2[i][0] == 0) == (outs[i][0] == 0) for i in range(nproc)):
                ok = True
                break
        if not ok:
            ctx.violation("the outcome of %d concurrent robsd-step processes equals no serial order (lost update or torn read)" % nproc,
                          dict(specs=specs, schedule=sched, lock_order=order, final_file=final.decode(errors="replace"),
                               outputs=[(rc, out.decode(errors="replace")) for rc, out, err in outs],
                               replay="verif/props/c02.py Sched: processes started with ROBSD_VERIF_SYNC, released in the order of `schedule`"))
        if len(set(i for i in sched)) > 1 and sched != sorted(sched):
            distinct.add((tuple(map(str, specs)), tuple(sched)))

    # ---- the step file does not exist yet when two writers start (whether -W creates it or fails is not the
    # point): writer A is let through k of its sync points, writer B runs to completion, then A finishes;
    # whatever both report as success must be in the file afterwards (= some serial order from a missing file)
    def serial_from_missing(order, specs_):
        if os.path.exists(path):
            os.unlink(path)
        outs_ = {}
        for i in order:
            sp = specs_[i]
            r = subprocess.run([step, "-W", "-f", path, "-i", str(sp[1]), "--"] + sp[2], capture_output=True, env=dict(os.environ, ASAN_OPTIONS="detect_leaks=0"))
            outs_[i] = r.returncode
        return (open(path, "rb").read() if os.path.exists(path) else None), outs_

    for k in range(ctx.n(5, 9)):
        specs_ = [("W", 1, full_row(1, "alpha", 0)), ("W", 2, full_row(2, "beta", 0))]
        if os.path.exists(path):
            os.unlink(path)
        sM = Sched(ctx, step, path, specs_)
        for _ in range(k):
            if sM.go(0, 0.5) in ("exit", None):
                break
        for _ in range(40):
            if sM.go(1, 0.5) == "exit":
                break
        outsM = sM.finish()
        finalM = open(path, "rb").read() if os.path.exists(path) else None
        kinds["missing-file-start"] = kinds.get("missing-file-start", 0) + 1
        okM = False
        for perm in ((0, 1), (1, 0)):
            f2, o2 = serial_from_missing(perm, specs_)
            if f2 == finalM and all((o2[i] == 0) == (outsM[i][0] == 0) for i in (0, 1)):
                okM = True
                break
        if not okM:
            ctx.violation("two writers starting on a step file that does not exist yet: the outcome equals no serial order (an update reported as written is gone)",
                          dict(exit_codes=[o[0] for o in outsM], final_file=None if finalM is None else finalM.decode(errors="replace"),
                               stderr=[o[2].decode(errors="replace")[-200:] for o in outsM],
                               replay="robsd-step -W -i 1 (ROBSD_VERIF_SYNC) released through %d sync points, robsd-step -W -i 2 run to completion, then the first one" % k))
    if os.path.exists(path):
        os.unlink(path)
    open(path, "wb").write(c0)
    # ---- X3: free-running stress, real blocking in flock(2)
    for t in range(ctx.n(3, 60)):
        open(path, "wb").write(c0)
        nw, nr = 12, 6
        procs = []
        for i in range(nw):
            procs.append(("W", subprocess.Popen([step, "-W", "-f", path, "-i", str(10 + i), "--"] + full_row(10 + i, "w%d" % i, i), stderr=subprocess.PIPE,
                                                env=dict(os.environ, ASAN_OPTIONS="detect_leaks=0"))))
        for i in range(nr):
            p = subprocess.Popen([step, "-R", "-f", path, "-i", "-1"], stdin=subprocess.PIPE, stdout=subprocess.PIPE, stderr=subprocess.PIPE,
                                 env=dict(os.environ, ASAN_OPTIONS="detect_leaks=0"))
            p.stdin.write(TEMPLATE)
            p.stdin.close()
            p.stdin = None
            procs.append(("R", p))
        bad = None
        for kind, p in procs:
            out, err = p.communicate(timeout=30)
            if p.returncode != 0:
                bad = (kind, p.returncode, err.decode(errors="replace")[-200:])
        final = open(path, "rb").read()
        rows = [l.split(b",")[0] for l in final.split(b"\n")[1:] if l]
        kinds["stress"] = kinds.get("stress", 0) + 1
        if bad or sorted(int(x) for x in rows) != [1, 2] + list(range(10, 10 + nw)):
            ctx.violation("free-running stress: %d writers of distinct ids and %d readers; a command failed or an update was lost" % (nw, nr),
                          dict(failed=bad, ids_in_file=[x.decode() for x in rows], cmd="12 x robsd-step -W -f F -i <10+i> -- name=.. & 6 x robsd-step -R -f F -i -1"))
    # ---- X4: a long critical section: a writer is held between lock and truncate for several seconds
    # while a second writer and a reader wait; neither may proceed before the holder unlocks
    linkpath = os.path.join(work, "step.lnk")
    if os.path.lexists(linkpath):
        os.unlink(linkpath)
    os.symlink("step.csv", linkpath)
    for t in range(ctx.n(2, 6)):
        open(path, "wb").write(c0)
        hold = 6.5 if t == 0 else 2.5 if t == 1 else rng.choice([2.0, 6.5, 11.0])
        # every other time the waiting writer and the reader name the file through a symbolic link
        other = linkpath if t % 2 == 1 else path
        sA = Sched(ctx, step, path, [("W", 21, full_row(21, "holder", 0))])
        pt = None
        for _ in range(6):
            pt = sA.go(0, 5)
            if pt in ("read", "exit", None):
                break
        t0 = time.time()
        pB = subprocess.Popen([step, "-W", "-f", other, "-i", "22", "--"] + full_row(22, "waiter", 0), stderr=subprocess.PIPE, env=dict(os.environ, ASAN_OPTIONS="detect_leaks=0"))
        pR = subprocess.Popen([step, "-R", "-f", other, "-i", "-1"], stdin=subprocess.PIPE, stdout=subprocess.PIPE, stderr=subprocess.PIPE, env=dict(os.environ, ASAN_OPTIONS="detect_leaks=0"))
        pR.stdin.write(TEMPLATE)
        pR.stdin.close()
        pR.stdin = None
        early = None
        while time.time() - t0 < hold:
            if pB.poll() is not None or pR.poll() is not None:
                early = ("writer" if pB.poll() is not None else "reader", round(time.time() - t0, 2))
                break
            time.sleep(0.05)
        outsA = sA.finish()
        errB = pB.communicate(timeout=30)[1]
        outR, errR = pR.communicate(timeout=30)
        final = open(path, "rb").read()
        ids = sorted(int(l.split(b",")[0]) for l in final.split(b"\n")[1:] if l)
        kinds["long-hold"] = kinds.get("long-hold", 0) + 1
        info = dict(held_at=pt, hold_seconds=hold, finished_early=early, ids_in_file=ids, rcs=[outsA[0][0], pB.returncode, pR.returncode],
                    stderr=(errB + errR).decode(errors="replace")[-300:],
                    replay="writer A (ROBSD_VERIF_SYNC) released up to the point after `read` and held there; robsd-step -W -i 22 and robsd-step -R -i -1 started meanwhile%s" % (" (both naming the file through a symbolic link)" if other != path else ""))
        if pt != "read":
            ctx.disagreement("long hold: the holder did not reach the point after read", info)
        elif early:
            ctx.violation("a %s finished after %.2f s while another writer held the step file's lock (held for %.1f s)" % (early[0], early[1], hold), info)
        elif ids != [1, 2, 21, 22] or outsA[0][0] != 0 or pB.returncode != 0 or pR.returncode != 0:
            ctx.violation("after a %.1f s critical section the file holds the ids %s (expected 1, 2, 21, 22) / a command failed" % (hold, ids), info)
    # ---- the other readers of the step file (robsd-report, robsd-regress-html use the same parser): a writer is
    # held right after it truncated the file; a report or html generation started meanwhile must wait for it
    # and then see the complete file, never the empty one
    from .. import reportgen
    for t in range(ctx.n(2, 6)):
        root2 = os.path.join(ctx.scratch, "c02readers")
        shutil.rmtree(root2, ignore_errors=True)
        b2 = os.path.join(root2, "2024-01-02.1")
        os.makedirs(os.path.join(b2, "tmp"))
        open(os.path.join(root2, ".running"), "w").write(b2 + "\n")
        p2 = os.path.join(b2, "step.csv")
        c2 = HEADER + b"1,bin/one,1,5,0,one.log,root,1700000000,0\n2,bin/two,0,7,0,two.log,root,1700000005,0\n"
        open(p2, "wb").write(c2)
        open(os.path.join(b2, "one.log"), "w").write("==== t ====\nFAILED t\n")
        open(os.path.join(b2, "two.log"), "w").write("ok\n")
        rr = reportgen.ReportRunner(ctx, d)
        which = ["report", "html"][t % 2]
        conf2 = rr.conf("robsd-regress" if which == "html" else "canvas", root2)
        hold = 2.5
        sA = Sched(ctx, step, p2, [("W", 3, full_row(3, "bin/three", 0))])
        pt = None
        for _ in range(8):
            pt = sA.go(0, 5)
            if pt in ("write", "exit", None):
                break
        empty_now = os.path.getsize(p2) == 0
        t0 = time.time()
        if which == "report":
            argv2 = [os.path.join(d, "robsd-report"), "-m", "canvas", "-C", conf2, b2]
        else:
            out2 = os.path.join(ctx.scratch, "c02html")
            shutil.rmtree(out2, ignore_errors=True)
            os.makedirs(out2)
            argv2 = [os.path.join(d, "robsd-regress-html"), "-o", out2, "amd64:" + root2]
        pR = subprocess.Popen(argv2, stdout=subprocess.PIPE, stderr=subprocess.PIPE, env=dict(os.environ, ASAN_OPTIONS="detect_leaks=0"))
        early = None
        while time.time() - t0 < hold:
            if pR.poll() is not None:
                early = round(time.time() - t0, 2)
                break
            time.sleep(0.05)
        outsA = sA.finish()
        outR, errR = pR.communicate(timeout=30)
        kinds["held-after-truncate-" + which] = kinds.get("held-after-truncate-" + which, 0) + 1
        shown = outR.decode(errors="replace") if which == "report" else (open(os.path.join(out2, "index.html"), errors="replace").read() if os.path.exists(os.path.join(out2, "index.html")) else "")
        info = dict(reader=" ".join(argv2[:1] + ["..."]), held_at=pt, file_empty_while_held=empty_now, finished_early_after=early, reader_rc=pR.returncode,
                    reader_stderr=errR.decode(errors="replace")[-300:], shown=shown[:600],
                    replay="robsd-step -W -i 3 (ROBSD_VERIF_SYNC) released up to the point after `truncate` and held there for %.1f s; %s started meanwhile" % (hold, which))
        if pt != "write":
            ctx.disagreement("held-after-truncate: the writer did not reach the point after truncate", info)
            continue
        sees = "one" in shown and ("1 failure" in shown if which == "report" else True)
        if early is not None:
            ctx.violation("robsd-%s finished after %.2f s while a writer held the step file's lock with the file truncated%s" % (
                "report" if which == "report" else "regress-html", early, "" if sees else ": it saw an empty or partial step file"), info)
        elif pR.returncode == 0 and not sees:
            ctx.violation("robsd-%s succeeded but does not show the steps of the file (an intermediate state was read)" % ("report" if which == "report" else "regress-html"), info)
    ans = ctx.model(reqs) if reqs else []
    for q, a, (final, outs, order), info in zip(reqs, ans, wants, infos):
        w = a.split(" ")
        m_final = w[0]
        m_order = [int(x) for x in w[1].split(",") if x] if len(w) > 1 else []
        m_outs = w[2:]
        nproc = len(outs)
        got_outs = ["%d:%s" % (0 if rc == 0 else 1, hexb(out) if info["specs"][i][0] == "R" else "-") for i, (rc, out) in enumerate(outs)]
        if m_order[:len(order)] != order:
            continue  # the processes that were still waiting when the schedule ended locked in an order the harness did not control
        if m_order != order and len(order) < nproc:
            continue
        if m_final != hexb(final) or m_outs != got_outs:
            ctx.disagreement("Flock model vs real robsd-step processes on the same schedule",
                             dict(info, impl_final=final.decode(errors="replace"), model_final=bytes.fromhex(m_final).decode(errors="replace") if m_final != "-" else "",
                                  impl_outs=got_outs, model_outs=m_outs, lock_order=order))
    ctx.cov.update(dict(
        evaluations=len(reqs) + kinds.get("stress", 0) + kinds.get("shape", 0), distinct_nontrivial=len(distinct),
        rule="2-3 real robsd-step processes (writers to the same and to distinct ids, partial updates, rejected writes, readers by index/name) driven through the "
             "ROBSD_VERIF_SYNC points (open, lock, read, truncate, write, close, unlock) along random interleavings plus serial controls; robsd-report and robsd-regress-html started while a writer is held right after truncating the file; non-trivial = distinct "
             "non-serial schedule; final file and reader outputs compared with the Flock model on the same schedule and with every serial order computed by the real "
             "binary; system-call shape from strace; free-running stress of 12 writers + 6 readers blocking in flock(2)",
        samples=[dict(specs=[str(x) for x in i["specs"]], sched=i["sched"]) for i in infos[:3]],
        traces_validated_against_impl=len(reqs), outcome_kinds=kinds))
    ctx.trusted += ["kernel flock(2): one exclusive advisory lock per inode, granted to one waiter at a time", "hook ROBSD_VERIF_SYNC (sync points in step.c)", "strace"]
