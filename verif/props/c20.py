"""C20: map, vector, buffer and checked arithmetic match their abstract models."""
import os
import subprocess

from .. import core

MODULES = ["Robsd.Props.C20Arith", "Robsd.Props.C20Map", "Robsd.Props.C20Cont"]
GENS = ["Arith", "Consts"]

TYPES = {
    "i32": (True, 32), "i64": (True, 64), "u32": (False, 32), "u64": (False, 64), "size": (False, 64),
}


def boundary(signed, w):
    if signed:
        lo, hi = -(1 << (w - 1)), (1 << (w - 1)) - 1
    else:
        lo, hi = 0, (1 << w) - 1
    h = 1 << (w // 2)
    c = {0, 1, 2, 3, lo, lo + 1, lo + 2, hi, hi - 1, hi - 2, h, h - 1, h + 1, hi // 2, hi // 2 + 1, hi // 3, 1 << (w - 2)}
    if signed:
        c |= {-1, -2, -3, -h, -h + 1, -h - 1, lo // 2, lo // 2 - 1, lo // 2 + 1, -(1 << (w - 2)), 46340, 46341, -46341, 3037000499, 3037000500, -3037000500}
    else:
        c |= {65535, 65536, 65537, 4294967295, 4294967296, 4294967297}
    for k in range(0, w, 7):
        c.add(1 << k)
        if signed:
            c.add(-(1 << k))
    return sorted(x for x in c if lo <= x <= hi), lo, hi


def arith_part(ctx):
    flags = ["clang", "-O0", "-g", "-fsanitize=signed-integer-overflow", "-fsanitize-trap=signed-integer-overflow"]
    exe = ctx.cc_harness("arith_harness", ["arith_harness.c"], repo_objs=["libks/arithmetic.c"], flags=flags)
    reqs = []
    for t, (signed, w) in TYPES.items():
        bs, lo, hi = boundary(signed, w)
        for op in ("add", "sub", "mul"):
            fn = "KS_%s_%s_overflow0" % (t, op)
            for a in bs:
                for b in bs:
                    reqs.append((fn, a, b))
            for _ in range(ctx.n(300, 20000)):
                k = ctx.rng.random()
                if k < 0.4:
                    a, b = ctx.rng.randint(lo, hi), ctx.rng.randint(lo, hi)
                elif k < 0.8:
                    # products near the limit
                    a = ctx.rng.randint(1, 1 << (w // 2 + 2))
                    b = (hi // a) + ctx.rng.randint(-2, 2)
                    if signed and ctx.rng.random() < 0.5:
                        a = -a
                    if signed and ctx.rng.random() < 0.5:
                        b = -b
                    b = max(lo, min(hi, b))
                else:
                    a = ctx.rng.choice(bs)
                    b = ctx.rng.randint(lo, hi)
                reqs.append((fn, a, b))
    lines = ["%s %d %d" % r for r in reqs]
    r = subprocess.run([exe], input=("\n".join(lines) + "\n").encode(), capture_output=True, timeout=600)
    impl = r.stdout.decode().split("\n")[:-1]
    if len(impl) != len(lines):
        raise core.BuildError("arith harness answered %d of %d (rc=%s, %s)" % (len(impl), len(lines), r.returncode, r.stderr[-300:]))
    model = ctx.model(["arith " + l for l in lines])
    nontrivial = set()
    kinds = {}
    for req, i, m in zip(reqs, impl, model):
        i_fb, i_bi = i.split(" | ")
        m_fb, m_spec = m.split(" | ")
        kinds[i_fb.split()[0]] = kinds.get(i_fb.split()[0], 0) + 1
        if i_bi != m_spec:
            ctx.disagreement("spec vs __builtin_*_overflow", dict(req=req, builtin=i_bi, spec=m_spec))
        if i_fb != m_fb:
            ctx.disagreement("Gen/Arith model vs KS_*_overflow0", dict(req=req, impl=i_fb, model=m_fb))
        # property oracle on the real code: fallback never traps and equals the
        # mathematically exact answer (computed here with Python integers)
        fn, a, b = req
        t = fn.split("_")[1]
        signed, w = TYPES[t]
        lo, hi = (-(1 << (w - 1)), (1 << (w - 1)) - 1) if signed else (0, (1 << w) - 1)
        exact = a + b if "_add_" in fn else a - b if "_sub_" in fn else a * b
        want = "value %d" % exact if lo <= exact <= hi else "overflow"
        if i_fb != want:
            ctx.violation("%s(%d, %d) fallback gives '%s', exact answer is '%s'" % (fn, a, b, i_fb, want),
                          dict(harness="harness/arith_harness.c (clang -O0 -fsanitize-trap=signed-integer-overflow) linked with /repo/libks/arithmetic.c",
                               stdin_line="%s %d %d" % req, observed=i, expected=want))
        if i_bi != want:
            ctx.violation("%s(%d, %d) builtin gives '%s', exact answer is '%s'" % (fn, a, b, i_bi, want),
                          dict(stdin_line="%s %d %d" % req, observed=i, expected=want))
        if want == "overflow" or abs(exact) > (1 << (w // 2)):
            nontrivial.add(req)
    return dict(evaluations=len(reqs), nontrivial=len(nontrivial), kinds=kinds,
                samples=[dict(request=l, impl=i, model=m) for l, i, m in list(zip(lines, impl, model))[:: max(1, len(lines) // 6)][:6]])


# --------------------------------------------------------------------------
# map / vector / buffer: the real libks (in-process, ASan+UBSan) against the
# Lean models Robsd.Map / Robsd.Vec / Robsd.Buf and against plain Python
# dict / list / bytes semantics (the model-free oracle)
# --------------------------------------------------------------------------

CONT_SRCS = ["libks/buffer.c", "libks/arithmetic.c", "libks/arena.c", "libks/arena-buffer.c", "libks/arena-vector.c"]


def run_harness(exe, lines, timeout=300):
    r = subprocess.run([exe], input=("\n".join(lines) + "\n").encode(), capture_output=True, timeout=timeout)
    out = r.stdout.decode(errors="replace").split("\n")
    if out and out[-1] == "":
        out.pop()
    return r.returncode, out, r.stderr.decode(errors="replace")


def colliding(exe, bits, value, count, length, seed, binary):
    rc, out, err = run_harness(exe, ["K %d %d %d %d %d %d" % (bits, value, count, length, seed, binary)])
    for l in out:
        if l.startswith("k "):
            return [bytes.fromhex(h) for h in l[2:].split(",") if h and h != "-"]
    raise core.BuildError("cont harness: no colliding keys (rc=%s %s)" % (rc, err[-300:]))


class MapCase:
    def __init__(self, rng, kind, keys, nops, dump_every):
        self.rng, self.kind = rng, kind
        self.pool = keys
        self.present = {}          # key -> id
        self.order = []            # keys in insertion order
        self.nid = 0
        self.lines = ["MAP %d" % kind]
        self.toks = []
        self.expect = []           # (kind, expected) per op line, None = no model-free expectation
        self.kinds = {}
        for i in range(nops):
            self.op()
            if dump_every and (i % dump_every == dump_every - 1):
                self.emit("dump", "D", "D", None)
        self.emit("dump", "D", "D", None)

    def emit(self, kind, line, tok, expect):
        self.kinds[kind] = self.kinds.get(kind, 0) + 1
        self.lines.append(line)
        self.toks.append(tok)
        self.expect.append(expect)

    def absent_key(self):
        for _ in range(50):
            k = self.rng.choice(self.pool)
            if k not in self.present:
                return k
        return None

    def op(self):
        rng = self.rng
        r = rng.random()
        grow = len(self.present) < len(self.pool) * 0.8
        if r < (0.55 if grow else 0.15):
            k = self.absent_key()
            if k is None:
                return self.op_find()
            use_n = 1 if (self.kind == 0 and rng.random() < 0.3) else 0
            self.present[k] = self.nid
            self.order.append(k)
            self.emit("insert", "I %s %d %d" % (k.hex(), use_n, rng.randint(0, 7)), "I:" + k.hex(), ("i", self.nid))
            self.nid += 1
        elif r < 0.75:
            self.op_find()
        elif r < 0.93:
            if self.present and rng.random() < 0.85:
                k = rng.choice(self.order)
                kind = "remove-present"
            else:
                k = self.absent_key() or rng.choice(self.pool)
                kind = "remove-present" if k in self.present else "remove-absent"
            if k in self.present:
                del self.present[k]
                self.order.remove(k)
            self.emit(kind, "R %s %d" % (k.hex(), rng.randint(0, 7)), "R:" + k.hex(), ("r", None))
        else:
            q = rng.random()
            if q < 0.4:
                rm = []
            elif q < 0.5:
                rm = list(self.order)
            else:
                rm = [k for k in self.order if rng.random() < 0.3]
            ids = [self.present[k] for k in rm]
            exp = [self.present[k] for k in self.order]
            for k in rm:
                del self.present[k]
                self.order.remove(k)
            self.emit("iterate-removing" if rm else "iterate", "T ,%s," % ",".join(map(str, ids)) if ids else "T -",
                      "T:" + (";".join(map(str, ids)) if ids else "-"), ("t", exp))

    def op_find(self):
        rng = self.rng
        if self.present and rng.random() < 0.7:
            k = rng.choice(self.order)
        else:
            k = rng.choice(self.pool)
        use_n = 1 if (self.kind == 0 and rng.random() < 0.3) else 0
        self.emit("find-present" if k in self.present else "find-absent",
                  "F %s %d %d" % (k.hex(), rng.randint(0, 7), use_n), "F:" + k.hex(), ("f", self.present.get(k)))


def word_keys(rng, n, lo, hi, alphabet):
    ks = set()
    while len(ks) < n:
        ks.add(bytes(rng.choice(alphabet) for _ in range(rng.randint(lo, hi))))
    return sorted(ks)


def map_part(ctx, exe):
    rng = ctx.rng
    cases = []
    alnum = b"abcdefghijklmnopqrstuvwxyz0123456789_-/."
    nonul = bytes(range(1, 256))
    ncase = ctx.n(40, 1500)
    for t in range(ncase):
        m = t % 8
        big = t < 8     # the first round always has the largest shapes
        if m == 0:      # int keys
            keys = sorted({rng.randrange(0, 1 << 32).to_bytes(4, "little") for _ in range(3000 if big else rng.choice([40, 400, 3000]))} |
                          {(i).to_bytes(4, "little") for i in range(rng.choice([0, 50, 600]))})
            cases.append((1, keys, rng.choice([60, 400, 4000]) if len(keys) > 1000 and not big else 4000 if big else rng.choice([60, 400])))
        elif m == 1:    # short and long string keys (the hash reads 12-byte blocks)
            cases.append((0, word_keys(rng, 2500 if big else rng.choice([30, 300, 2500]), 1, 40, alnum), 3500 if big else rng.choice([80, 500, 3500])))
        elif m == 2:    # arbitrary non-NUL bytes
            cases.append((0, word_keys(rng, rng.choice([30, 300]), 1, 30, nonul), rng.choice([80, 600])))
        elif m == 3:    # all keys in one initial bucket: expansion after 10 insertions
            keys = colliding(exe, 5, rng.randrange(32), rng.choice([24, 60, 200]), rng.choice([3, 5, 13]), rng.randrange(1 << 20), 0)
            cases.append((0, keys, rng.choice([80, 300])))
        elif m == 4:    # colliding on 12..16 bits: ineffective expansions, then noexpand
            keys = colliding(exe, 16 if big else rng.choice([12, 14, 16]), rng.randrange(4096), 260 if big else rng.choice([60, 130, 260]), rng.choice([6, 9, 14]), rng.randrange(1 << 20), 0)
            cases.append((0, keys, rng.choice([200, 500])))
        elif m == 5:    # int keys in one bucket
            keys = colliding(exe, rng.choice([5, 10, 14]), rng.randrange(32), rng.choice([30, 150]), 4, rng.randrange(1 << 20), 1)
            cases.append((1, keys, rng.choice([100, 400])))
        elif m == 6:    # small maps emptied and refilled (table freed and remade)
            cases.append((rng.randint(0, 1), word_keys(rng, 6, 4, 4, alnum), 120))
        else:           # two colliding families mixed with random keys
            keys = colliding(exe, 8, rng.randrange(256), 40, 7, rng.randrange(1 << 20), 0) + \
                colliding(exe, 8, rng.randrange(256), 40, 12, rng.randrange(1 << 20), 0) + word_keys(rng, 100, 1, 20, alnum)
            cases.append((0, sorted(set(keys)), 500))
    kinds, reqs, infos, wants = {}, [], [], []
    stats = dict(max_buckets=0, noexpand_cases=0, expansions_crossed={}, emptied=0)
    nops = 0
    for kind, keys, n in cases:
        c = MapCase(rng, kind, keys, n, dump_every=(1 if n <= 120 else 25))
        rc, out, err = run_harness(exe, c.lines)
        info = dict(harness="harness/cont_harness.c (ASan+UBSan) including /repo/libks/map.c", stdin=c.lines if len(c.lines) < 400 else c.lines[:400] + ["... %d more" % (len(c.lines) - 400)], rc=rc, stderr=err[-800:])
        for k, v in c.kinds.items():
            kinds[k] = kinds.get(k, 0) + v
        nops += len(c.toks)
        orc = [l for l in out if l.startswith("ORACLE")]
        res = [l for l in out if not l.startswith("ORACLE") and not l.startswith("PARAMS") and l != "DONE"]
        if rc != 0 or "DONE" not in out:
            ctx.violation("the map harness died (%s) after %d of %d operations on a %s-keyed map" % (
                core.sanitizer_report(err.encode()) or ("rc=%s" % rc), len(res), len(c.toks), "string" if kind == 0 else "integer"), info)
            continue
        for m_ in orc[:3]:
            ctx.violation("libks map: " + m_[7:], info)
        if len(res) != len(c.toks):
            ctx.disagreement("map harness answered %d lines for %d operations" % (len(res), len(c.toks)), info)
            continue
        # model-free oracle: dictionary + insertion order
        nb_seen = set()
        for i, (l, exp) in enumerate(zip(res, c.expect)):
            if "#" in l:
                hdr = l.split("#")[1].split(":")
                nb_seen.add(int(hdr[0]))
                stats["max_buckets"] = max(stats["max_buckets"], int(hdr[0]))
            if exp is None:
                continue
            body = l.split(" #")[0].split(" ")
            bad = None
            if exp[0] == "i" and (body[0] != "i" or body[1] != str(exp[1])):
                bad = "insert did not return a new element"
            elif exp[0] == "f" and body[1] != ("-" if exp[1] is None else str(exp[1])):
                bad = "find(%s) returned %s, the dictionary holds %s" % (c.toks[i][2:], body[1], exp[1])
            elif exp[0] == "t":
                got = [] if body[1] == "-" else [int(x) for x in body[1].split(",")]
                if got != exp[1] or body[2] != "1":
                    bad = "iteration returned %s, live entries in insertion order are %s" % (got[:40], exp[1][:40])
            if bad:
                ctx.violation("libks map (%s keys), operation %d: %s" % ("string" if kind == 0 else "integer", i, bad), dict(info, at=i, op=c.lines[i + 1]))
                break
        if any(l.endswith(":1:2") or " noexpand=1" in l for l in res):
            stats["noexpand_cases"] += 1
        if 0 in nb_seen and len(nb_seen) > 2:
            stats["emptied"] += 1
        nexp = len([b for b in nb_seen if b > 32])
        stats["expansions_crossed"][nexp] = stats["expansions_crossed"].get(nexp, 0) + 1
        reqs.append("map " + ",".join(c.toks))
        wants.append(res)
        infos.append(info)
    ans = ctx.model(reqs) if reqs else []
    nd = 0
    for q, a, w, info in zip(reqs, ans, wants, infos):
        ms = a.split("|")
        if ms != w:
            i = next((i for i in range(max(len(ms), len(w))) if i >= len(ms) or i >= len(w) or ms[i] != w[i]), None)
            nd += 1
            if nd <= 4:
                toks = q.split(" ")[1].split(",")
                ctx.disagreement("Map model vs libks/map.c", dict(at_op=i, op=toks[i] if i is not None and i < len(toks) else None,
                                 impl=(w[i] if i is not None and i < len(w) else None), model=(ms[i] if i is not None and i < len(ms) else None),
                                 ops_before=toks[max(0, (i or 0) - 10):(i or 0)], info=dict(info, stdin=info["stdin"][:60])))
    return dict(cases=len(cases), ops=nops, kinds=kinds, stats=stats, compared=len(reqs),
                sample=dict(request=reqs[0][:160], impl=" | ".join(wants[0][:3])[:200]) if reqs else None)


def fmt_out(kind, args):
    if kind == "s":
        return args[0]
    if kind == "d":
        return str(args[0]).encode()
    if kind == "x":
        return b"[" + args[0] + b"|" + ("%5d" % args[1]).encode() + b"]"
    return ("%d:" % args[0]).encode() + args[1][:args[2]] + b";"


def pylines(data):
    if not data:
        return []
    parts = data.split(b"\n")
    if data.endswith(b"\n"):
        parts.pop()
    return [p.split(b"\0")[0] for p in parts]


class ContCase:
    """one process: a vector of unsigned long and a buffer, malloc or arena backed"""

    def __init__(self, rng, arena, nops, hdr):
        self.rng = rng
        self.arena = arena
        self.vinit = rng.choice([0, 0, 1, 5, 16, 17]) if arena else 0
        self.binit = rng.choice([0, 1, 16, 100, 1 << 10, 1 << 13])
        self.lines = ["CONT %d %d %d" % (arena, self.vinit, self.binit)]
        self.vtoks, self.btoks, self.wtoks = [], [], []
        self.which = []            # per op: ("v" | "w" | "b", expectation)
        self.vec, self.buf, self.wvec = [], bytearray(), []
        self.kinds = {}
        for _ in range(nops):
            self.op()
        self.emit("v", "vec-dump", "VD", "D", ("items", list(self.vec)))
        self.emit("w", "vec-dump", "WD", "D", ("items", list(self.wvec)))
        self.emit("b", "buf-dump", "BG", "G", ("bytes", bytes(self.buf)))

    def emit(self, w, kind, line, tok, exp):
        self.kinds[kind] = self.kinds.get(kind, 0) + 1
        self.lines.append(line)
        {"v": self.vtoks, "w": self.wtoks, "b": self.btoks}[w].append(tok)
        self.which.append((w, exp))

    def blob(self):
        rng = self.rng
        n = rng.choice([0, 1, 2, 7, 15, 16, 17, 60, 300, 1023, 1024, 5000]) if rng.random() < 0.5 else rng.randint(0, 80)
        q = rng.random()
        if q < 0.5:
            return bytes(rng.choice(b"abc \n\n.xyz") for _ in range(n))
        if q < 0.8:
            return bytes(rng.randint(1, 255) for _ in range(n))
        return bytes(rng.choice([0, 10, 65, 66, 255]) for _ in range(n))

    def op(self):
        rng = self.rng
        if rng.random() < 0.45:
            r = rng.random()
            # the word vector or the one with 24-byte elements
            W, P = ("v", "V") if rng.random() < 0.6 else ("w", "W")
            v = self.vec if W == "v" else self.wvec
            if r < 0.45:
                x = rng.choice([0, 1, 2 ** 64 - 1, rng.randrange(2 ** 64), rng.randrange(100)])
                self.emit(W, "alloc", "%sA %d" % (P, x), "A:%d" % x, ("slot", (len(v), x)))
                v.append(x)
            elif r < 0.52:
                self.emit(W, "calloc", P + "C", "C", ("slot", (len(v), 0)))
                v.append(0)
            elif r < 0.64:
                self.emit(W, "pop", P + "P", "P", ("slot", (len(v) - 1, v[-1]) if v else None))
                if v:
                    v.pop()
            elif r < 0.76:
                n = rng.choice([0, 1, 2, 5, 15, 16, 17, 31, 32, 33, 40, 100, 1000, 2 * len(v) + 40, 3 * len(v) + 1])
                self.emit(W, "reserve", "%sR %d" % (P, n), "R:%d" % n, ("status", 0))
            elif r < 0.82:
                self.emit(W, "sort", P + "S", "S", None)
                v.sort()
            elif r < 0.84:
                self.emit(W, "clear", P + "X", "X", None)
                del v[:]
            elif r < 0.89:
                self.emit(W, "first", P + "F", "F", ("slot", (0, v[0]) if v else None))
            elif r < 0.94:
                self.emit(W, "last", P + "L", "L", ("slot", (len(v) - 1, v[-1]) if v else None))
            elif r < 0.97:
                self.emit(W, "length", P + "N", "N", ("len", len(v)))
            else:
                self.emit(W, "vec-dump", P + "D", "D", ("items", list(v)))
            return
        r = rng.random()
        b = self.buf
        if r < 0.04:
            # lines whose length sits at the line buffer's capacity boundaries (1 KiB, doubling), in any order
            ls = [rng.choice([15, 16, 17, 1022, 1023, 1024, 1025, 2047, 2048, 2049, 4096, 4097]) for _ in range(rng.randint(1, 6))]
            x = b"".join(bytes(rng.choice(b"abcdefgh ") for _ in range(n)) + b"\n" for n in ls)
            if rng.random() < 0.3:
                x = x[:-1]
            self.emit("b", "reset", "BR", "R", None)
            del b[:]
            self.emit("b", "puts-boundary-lines", "BP %s" % x.hex(), "P:" + x.hex(), ("status", 0))
            b += x
            self.emit("b", "getline", "BL", "L", ("lines", pylines(bytes(b))))
            return
        if r < 0.30:
            x = self.blob()
            self.emit("b", "puts" if x else "puts-empty", "BP %s" % (x.hex() or "-"), "P:" + (x.hex() or "-"), ("status", 0))
            b += x
        elif r < 0.38:
            c = rng.choice([0, 10, 65, 255, rng.randint(0, 255)])
            self.emit("b", "putc", "BC %d" % c, "C:%d" % c, ("status", 0))
            b.append(c)
        elif r < 0.56:
            k = rng.choice("sdxz")
            arg = bytes(x for x in self.blob() if x != 0)
            if rng.random() < 0.3:
                # fill the buffer exactly up to its capacity boundary +-1 (the NUL of vsnprintf)
                arg = bytes(rng.choice(b"pq") for _ in range(rng.choice([15, 16, 17, 31, 32, 33, 63, 64, 1023, 1024])))
            if k == "s":
                args, line = (arg,), "BF s %s" % (arg.hex() or "-")
            elif k == "d":
                n = rng.choice([0, -1, 7, 2 ** 31 - 1, -2 ** 31, rng.randint(-10 ** 6, 10 ** 6)])
                args, line = (n,), "BF d %d" % n
            elif k == "x":
                n = rng.randint(-99999, 999999)
                args, line = (arg, n), "BF x %s %d" % (arg.hex() or "-", n)
            else:
                sz, prec = rng.choice([0, 1, 2 ** 64 - 1, rng.randrange(10 ** 9)]), rng.choice([0, 1, 3, len(arg), len(arg) + 5])
                args, line = (sz, arg, prec), "BF z %d %s %d" % (sz, arg.hex() or "-", prec)
            out = fmt_out(k, args)
            self.emit("b", "printf-" + k, line, "F:" + (out.hex() or "-"), ("status", 0))
            b += out
        elif r < 0.60:
            self.emit("b", "reset", "BR", "R", None)
            del b[:]
        elif r < 0.68:
            n = rng.choice([0, 1, 2, len(b), len(b) + 1, rng.randint(0, max(1, len(b)))])
            k = min(n, len(b))
            self.emit("b", "pop", "BO %d" % n, "O:%d" % n, ("n", k))
            del b[len(b) - k:]
        elif r < 0.72:
            want = bytes(b) if (b and b[-1] == 0) else bytes(b) + b"\0"
            self.emit("b", "str", "BS", "S", ("bytes", want))
            del b[:]
        elif r < 0.80:
            f = (self.blob() * rng.choice([1, 1, 2, 9]))[:45000]
            q = rng.random()
            if q < 0.3:
                cs = []
            elif q < 0.6:
                cs = [rng.choice([1, 2, 7, 11, 100, 4096, 8191, 8192, 10 ** 6]) for _ in range(rng.randint(1, 12))]
            else:
                cs = [rng.randint(1, 64) for _ in range(rng.randint(1, 400))]
            self.emit("b", "read-fd" if cs else "read-fd-whole", "BD %s %s" % (f.hex() or "-", ",".join(map(str, cs)) or "-"),
                      "D:%s:%s" % (f.hex() or "-", ";".join(map(str, cs)) or "-"), ("status", 0))
            del b[:]
            b += f
        elif r < 0.88:
            # the model's getline is quadratic in the driver: large buffers get one getline loop per case
            if len(b) > 6000:
                if self.kinds.get("getline-large"):
                    return
                self.emit("b", "getline-large", "BL", "L", ("lines", pylines(bytes(b))))
            else:
                self.emit("b", "getline", "BL", "L", ("lines", pylines(bytes(b))))
        elif r < 0.92:
            self.emit("b", "len", "BN", "N", ("n", len(b)))
        elif r < 0.96:
            o = bytes(b) if rng.random() < 0.5 else self.blob()
            self.emit("b", "cmp", "BM %s" % (o.hex() or "-"), "M:" + (o.hex() or "-"), ("cmp", int(o != bytes(b))))
        else:
            self.emit("b", "buf-dump", "BG", "G", ("bytes", bytes(b)))


def check_expect(exp, body):
    """model-free expectation against one harness answer; returns a message or None"""
    kind, val = exp
    w = body.split(" ")
    if w[0] != kind:
        return "answered '%s' where '%s ...' is expected" % (body[:60], kind)
    if kind == "status" or kind == "n" or kind == "len" or kind == "cmp":
        return None if int(w[1]) == val else "returned %s, expected %s" % (w[1], val)
    if kind == "slot":
        got = None if w[1] == "-" else (int(w[1]), int(w[2]))
        return None if got == val else "returned element %s, the array has %s" % (got, val)
    if kind == "items":
        got = [] if w[1] == "-" else [int(x) for x in w[1].split(",")]
        return None if got == val else "contents are %s..., the array is %s..." % (got[:12], val[:12])
    if kind == "bytes":
        got = b"" if w[1] == "-" else bytes.fromhex(w[1]) if w[1] != "!" else None
        return None if got == val else "contents are %r..., the byte string is %r... (lengths %s, %d)" % (
            got[:40] if got is not None else None, val[:40], len(got) if got is not None else None, len(val))
    if kind == "lines":
        got = [] if w[1] == "." else [b"" if x == "-" else bytes.fromhex(x) for x in w[1].split(",")]
        return None if got == val else "getline yields %d lines %r..., the text has %d lines %r..." % (len(got), got[:4], len(val), val[:4])
    return None


def cont_part(ctx, exe):
    rng = ctx.rng
    rc, out, _ = run_harness(exe, [])
    hdr, stride, stride2 = [int(x) for x in out[0].split()[1:4]]
    kinds, vreqs, breqs, vwants, bwants, vinfos, binfos = {}, [], [], [], [], [], []
    ncase = ctx.n(60, 3000)
    nops = 0
    reallocs = 0
    for t in range(ncase):
        c = ContCase(rng, arena=(t % 3 == 2), nops=rng.choice([30, 120, 400]), hdr=hdr)
        rc, out, err = run_harness(exe, c.lines)
        info = dict(harness="harness/cont_harness.c (ASan+UBSan) including /repo/libks/vector.c, linked with buffer.c; %s backed" % ("arena" if c.arena else "malloc"),
                    stdin=c.lines if len(c.lines) < 300 else c.lines[:300] + ["... %d more" % (len(c.lines) - 300)], rc=rc, stderr=err[-800:])
        for k, v in c.kinds.items():
            kinds[k] = kinds.get(k, 0) + v
        nops += len(c.which)
        orc = [l for l in out if l.startswith("ORACLE")]
        res = [l for l in out if not l.startswith("ORACLE") and not l.startswith("PARAMS") and l != "DONE"]
        if rc != 0 or "DONE" not in out:
            ctx.violation("the vector/buffer harness died (%s) after %d of %d operations (%s backed)" % (
                core.sanitizer_report(err.encode()) or ("rc=%s" % rc), len(res), len(c.which), "arena" if c.arena else "malloc"), info)
            continue
        for m_ in orc[:3]:
            ctx.violation("libks buffer: " + m_[7:], info)
        if len(res) != len(c.which):
            ctx.disagreement("vector/buffer harness answered %d lines for %d operations" % (len(res), len(c.which)), info)
            continue
        vres, bres, wres = [], [], []
        prev_siz = {}
        for i, (l, (w, exp)) in enumerate(zip(res, c.which)):
            {"v": vres, "w": wres, "b": bres}[w].append(l)
            siz = l.rsplit(":", 1)[1]
            if prev_siz.get(w) not in (None, siz):
                reallocs += 1
            prev_siz[w] = siz
            if exp is not None:
                bad = check_expect(exp, l.split(" #")[0])
                if bad:
                    ctx.violation("libks %s (%s backed), operation %d `%s`: %s" % (
                        {"v": "vector", "w": "vector of 24-byte elements", "b": "buffer"}[w], "arena" if c.arena else "malloc", i, c.lines[i + 1][:80], bad), dict(info, at=i))
                    break
        vreqs.append("vec %d %d %d %s" % (hdr, stride, c.vinit, ",".join(c.vtoks)))
        vwants.append(vres)
        vinfos.append(info)
        vreqs.append("vec %d %d %d %s" % (hdr, stride2, c.vinit, ",".join(c.wtoks)))
        vwants.append(wres)
        vinfos.append(info)
        breqs.append("buf %d %s" % (c.binit, ",".join(c.btoks)))
        bwants.append(bres)
        binfos.append(info)
    nd = 0
    for what, reqs, wants, infos in (("Vec model vs libks/vector.c", vreqs, vwants, vinfos), ("Buf model vs libks/buffer.c", breqs, bwants, binfos)):
        ans = ctx.model(reqs) if reqs else []
        for q, a, w, info in zip(reqs, ans, wants, infos):
            ms = a.split("|")
            if ms != w:
                i = next((i for i in range(max(len(ms), len(w))) if i >= len(ms) or i >= len(w) or ms[i] != w[i]), None)
                nd += 1
                if nd <= 4:
                    toks = q.split(" ")[-1].split(",")
                    ctx.disagreement(what, dict(at_op=i, op=toks[i][:120] if i is not None and i < len(toks) else None,
                                     impl=(w[i][:200] if i is not None and i < len(w) else None), model=(ms[i][:200] if i is not None and i < len(ms) else None),
                                     ops_before=[x[:60] for x in toks[max(0, (i or 0) - 8):(i or 0)]], info=dict(info, stdin=info["stdin"][:80])))
    return dict(cases=ncase, ops=nops, kinds=kinds, capacity_changes=reallocs, compared=len(vreqs) + len(breqs),
                sample=dict(request=breqs[0][:160], impl=" | ".join(bwants[0][:3])[:200]) if breqs else None)


def run(ctx):
    ctx.translate(GENS)
    ok = ctx.lake_build(MODULES)
    ctx.audit(MODULES)
    a = arith_part(ctx)
    extra = ["-Wl,--wrap=read", "-I" + os.path.join(core.VERIF, "harness")]
    exe = ctx.cc_harness("cont_harness", ["cont_harness.c"], extra=extra, flavour="asan", repo_objs=CONT_SRCS)
    m = map_part(ctx, exe)
    c = cont_part(ctx, exe)
    ctx.cov.update(dict(
        evaluations=a["evaluations"] + m["ops"] + c["ops"], distinct_nontrivial=a["nontrivial"] + m["cases"] + c["cases"],
        containers=dict(map=m, vector_buffer=c),
        rule="map: operation sequences (insert of absent keys, find/remove of present and absent keys through pointers at every alignment and the _N variants, "
             "whole iterations removing a subset of the current entries) over string- and integer-keyed maps: random keys up to 3000 entries, key families colliding on the "
             "low 5..16 hash bits (found with the real HASH_JEN) to cross expansions and reach the noexpand state, tiny maps emptied and refilled; after every operation the "
             "table header, and regularly every bucket chain with count and expand_mult, is compared with the Lean model, and the harness checks back pointers, counts and "
             "value addresses on the real memory; vector/buffer: interleaved operation sequences on a malloc- or arena-backed vector and buffer (reserve incl. far beyond "
             "the capacity, alloc/calloc/pop/sort/clear/first/last; puts/putc/printf with four formats at capacity boundaries, reset/pop/str/cmp/getline, buffer_read_fd on a "
             "descriptor delivering prescribed chunk sizes via --wrap=read), length and capacity compared with the model after every operation, contents against Python "
             "list/bytes semantics. arith: full cross-product of boundary operands per type and operation plus a seeded sample "
             "(uniform, near-limit products, boundary x uniform); non-trivial = the exact result overflows or exceeds half the width; "
             "each case is run on the real fallback (KS_*_overflow0), the real builtin wrapper, the generated Lean model and the Lean spec",
        samples=a["samples"] + [x for x in (m["sample"], c["sample"]) if x],
        traces_validated_against_impl=a["evaluations"] + m["compared"] + c["compared"], outcome_kinds=a["kinds"]))
    ctx.trusted += ["__builtin_*_overflow intrinsics (their specification is CArith.spec; cross-checked on every case)",
                    "translation of C expressions to CArith (translate/cexpr.py); LP64: size_t = 64 bit",
                    "map/vector/buffer: pointers are modelled as identities (element id) and lists (prev/next/hh_prev/hh_next chains); the harness checks on the real memory that the "
                    "back pointers mirror the forward lists; malloc/calloc/realloc/free, memcpy, memcmp, qsort (any correct sort: theorem sort_any), vsnprintf (its output is an input "
                    "of the model) are trusted; allocation failure and the 2^31-bucket overflow exit are not modelled; little-endian 32-bit loads in HASH_JEN"]
    ctx.assumptions += ["map: a key is inserted only while absent (Spec.guarded), as every caller in robsd does (find before insert)",
                        "vector/buffer: requests stay far below SIZE_MAX (Fits / smallOp); beyond that the code returns an error and leaves the container unchanged (reserve1_err_unchanged)"]
