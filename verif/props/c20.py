"""C20: map, vector, buffer and checked arithmetic match their abstract models."""
import os
import subprocess

from .. import core

MODULES = ["Robsd.Props.C20Arith"]
GENS = ["Arith", "Consts"]

TYPES = {
    "i32": (True, 32), "i64": (True, 64), "u32": (False, 32), "u64": (False, 64), "size": (False, 64),
}


def boundary(signed, w):
    if signed:
        lo, hi = -(1 << (w - 1)), (1 << (w - 1)) - 1
    else:
        lo, hi = 0, (1 << w) - 1
    h = 1 << (w // 2)
    c = {0, 1, 2, 3, lo, lo + 1, lo + 2, hi, hi - 1, hi - 2, h, h - 1, h + 1, hi // 2, hi // 2 + 1, hi // 3, 1 << (w - 2)}
    if signed:
        c |= {-1, -2, -3, -h, -h + 1, -h - 1, lo // 2, lo // 2 - 1, lo // 2 + 1, -(1 << (w - 2)), 46340, 46341, -46341, 3037000499, 3037000500, -3037000500}
    else:
        c |= {65535, 65536, 65537, 4294967295, 4294967296, 4294967297}
    for k in range(0, w, 7):
        c.add(1 << k)
        if signed:
            c.add(-(1 << k))
    return sorted(x for x in c if lo <= x <= hi), lo, hi


def arith_part(ctx):
    flags = ["clang", "-O0", "-g", "-fsanitize=signed-integer-overflow", "-fsanitize-trap=signed-integer-overflow"]
    exe = ctx.cc_harness("arith_harness", ["arith_harness.c"], repo_objs=["libks/arithmetic.c"], flags=flags)
    reqs = []
    for t, (signed, w) in TYPES.items():
        bs, lo, hi = boundary(signed, w)
        for op in ("add", "sub", "mul"):
            fn = "KS_%s_%s_overflow0" % (t, op)
            for a in bs:
                for b in bs:
                    reqs.append((fn, a, b))
            for _ in range(ctx.n(300, 20000)):
                k = ctx.rng.random()
                if k < 0.4:
                    a, b = ctx.rng.randint(lo, hi), ctx.rng.randint(lo, hi)
                elif k < 0.8:
                    # products near the limit
                    a = ctx.rng.randint(1, 1 << (w // 2 + 2))
                    b = (hi // a) + ctx.rng.randint(-2, 2)
                    if signed and ctx.rng.random() < 0.5:
                        a = -a
                    if signed and ctx.rng.random() < 0.5:
                        b = -b
                    b = max(lo, min(hi, b))
                else:
                    a = ctx.rng.choice(bs)
                    b = ctx.rng.randint(lo, hi)
                reqs.append((fn, a, b))
    lines = ["%s %d %d" % r for r in reqs]
    r = subprocess.run([exe], input=("\n".join(lines) + "\n").encode(), capture_output=True, timeout=600)
    impl = r.stdout.decode().split("\n")[:-1]
    if len(impl) != len(lines):
        raise core.BuildError("arith harness answered %d of %d (rc=%s, %s)" % (len(impl), len(lines), r.returncode, r.stderr[-300:]))
    model = ctx.model(["arith " + l for l in lines])
    nontrivial = set()
    kinds = {}
    for req, i, m in zip(reqs, impl, model):
        i_fb, i_bi = i.split(" | ")
        m_fb, m_spec = m.split(" | ")
        kinds[i_fb.split()[0]] = kinds.get(i_fb.split()[0], 0) + 1
        if i_bi != m_spec:
            ctx.disagreement("spec vs __builtin_*_overflow", dict(req=req, builtin=i_bi, spec=m_spec))
        if i_fb != m_fb:
            ctx.disagreement("Gen/Arith model vs KS_*_overflow0", dict(req=req, impl=i_fb, model=m_fb))
        # property oracle on the real code: fallback never traps and equals the
        # mathematically exact answer (computed here with Python integers)
        fn, a, b = req
        t = fn.split("_")[1]
        signed, w = TYPES[t]
        lo, hi = (-(1 << (w - 1)), (1 << (w - 1)) - 1) if signed else (0, (1 << w) - 1)
        exact = a + b if "_add_" in fn else a - b if "_sub_" in fn else a * b
        want = "value %d" % exact if lo <= exact <= hi else "overflow"
        if i_fb != want:
            ctx.violation("%s(%d, %d) fallback gives '%s', exact answer is '%s'" % (fn, a, b, i_fb, want),
                          dict(harness="harness/arith_harness.c (clang -O0 -fsanitize-trap=signed-integer-overflow) linked with /repo/libks/arithmetic.c",
                               stdin_line="%s %d %d" % req, observed=i, expected=want))
        if i_bi != want:
            ctx.violation("%s(%d, %d) builtin gives '%s', exact answer is '%s'" % (fn, a, b, i_bi, want),
                          dict(stdin_line="%s %d %d" % req, observed=i, expected=want))
        if want == "overflow" or abs(exact) > (1 << (w // 2)):
            nontrivial.add(req)
    return dict(evaluations=len(reqs), nontrivial=len(nontrivial), kinds=kinds,
                samples=[dict(request=l, impl=i, model=m) for l, i, m in list(zip(lines, impl, model))[:: max(1, len(lines) // 6)][:6]])


def run(ctx):
    ctx.translate(GENS)
    ok = ctx.lake_build(MODULES)
    ctx.audit(MODULES)
    a = arith_part(ctx)
    ctx.cov.update(dict(
        evaluations=a["evaluations"], distinct_nontrivial=a["nontrivial"],
        rule="arith: full cross-product of boundary operands per type and operation plus a seeded sample "
             "(uniform, near-limit products, boundary x uniform); non-trivial = the exact result overflows or exceeds half the width; "
             "each case is run on the real fallback (KS_*_overflow0), the real builtin wrapper, the generated Lean model and the Lean spec",
        samples=a["samples"], traces_validated_against_impl=a["evaluations"], outcome_kinds=a["kinds"]))
    ctx.trusted += ["__builtin_*_overflow intrinsics (their specification is CArith.spec; cross-checked on every case)",
                    "translation of C expressions to CArith (translate/cexpr.py); LP64: size_t = 64 bit"]
