"""C11: every executed step is accounted for; lock, hook and report follow the run."""
import os
import shutil
import subprocess
import time

from .. import core
from ..core import hexb
from ..canvasrun import CanvasRunner, gen_config

MODULES = ["Robsd.Props.C11", "Robsd.Props.C11Lock", "Robsd.Props.C04Kill"]
GENS = []


def snapshot(d):
    out = {}
    for dp, dn, fn in os.walk(d):
        for f in fn:
            p = os.path.join(dp, f)
            try:
                out[os.path.relpath(p, d)] = open(p, "rb").read()
            except OSError:
                pass
    return out


def analyse(ctx, cfg, res, detach, what):
    par = {s[0]: s[1] for s in cfg["steps"]}
    exits = {s[0]: s[3] for s in cfg["steps"]}
    info = dict(cfg=cfg, detach=detach, rc=res["rc"], rows=res["rows"], hooks=res["hooks"], events=[(a, b) for a, b, _, _ in res["events"]],
                stderr=res["stderr"][-300:])
    started = [n for k, n, _, _ in res["events"] if k == "start"]
    rows = {r["name"]: r for r in res["rows"]}
    for n in started:
        rs = [r for r in res["rows"] if r["name"] == n]
        if len(rs) != 1:
            ctx.violation("%s: step %s ran but has %d records" % (what, n, len(rs)), info)
            continue
        r = rs[0]
        if r["exit"] != exits[n] or r["duration"] < 0 or r["skip"] != 0:
            ctx.violation("%s: record of %s has exit %d duration %d (real exit %d)" % (what, n, r["exit"], r["duration"], exits[n]), info)
        if not r["log"] or ("output of %s" % n) not in res["logs"].get(r["log"], ""):
            ctx.violation("%s: log '%s' of step %s does not hold the step's output" % (what, r["log"], n), info)
    logs_used = [rows[n]["log"] for n in started if n in rows]
    if len(set(logs_used)) != len(logs_used):
        ctx.violation("%s: two steps share a log file" % what, info)
    for n in cfg["skip"]:
        r = rows.get(n)
        if r is None or r["skip"] != 1 or r["log"] != "":
            ctx.violation("%s: skipped step %s has no proper skip record" % (what, n), info)
        if n in started:
            ctx.violation("%s: skipped step %s ran" % (what, n), info)
    for r in res["rows"]:
        if r["exit"] == -1 or r["duration"] == -1:
            ctx.violation("%s: record of %s left in flight although the invocation was not killed" % (what, r["name"]), info)
    has_end = "end" in rows
    want_hooks = sorted([n, str(exits[n])] for n in started) + ([["end", "0"]] if has_end else [])
    got_hooks = sorted(h[:2] for h in res["hooks"] if h[0] != "end") + [h[:2] for h in res["hooks"] if h[0] == "end"]
    if got_hooks != want_hooks:
        ctx.violation("%s: hook calls %s, expected once per executed step and once for end: %s" % (what, got_hooks, want_hooks), info)
    for h in res["hooks"]:
        if len(h) < 3 or h[2] != (res["builddir"] or ""):
            ctx.violation("%s: hook for %s saw builddir '%s', the invocation is '%s'" % (what, h[0], h[2] if len(h) > 2 else None, res["builddir"]), info)
            break
    for k, n, _, extra in res["events"]:
        if k == "start" and extra != "lock=" + (res["builddir"] or ""):
            ctx.violation("%s: while step %s ran the lock file said '%s', the invocation is '%s'" % (what, n, extra, res["builddir"]), info)
            break
    if res["lock_left"]:
        ctx.violation("%s: the lock file is still there after the invocation ended" % what, info)
    failed = any(not par[n] and exits[n] != 0 for n in started)
    # also when every step was skipped and only `end` was reached
    want_report = failed or has_end
    if (res["report"] is not None) != want_report:
        ctx.violation("%s: report %s, but a step failed=%s / end reached=%s" % ("exists" if res["report"] is not None else "missing", what, failed, has_end), info)
    nmail = res["mail"].count("=== sendmail")
    if nmail != (1 if (detach and want_report) else 0):
        ctx.violation("%s: %d mails sent (detached=%s, report expected=%s)" % (what, nmail, detach, want_report), info)
    return started, has_end, failed


def run(ctx):
    ctx.translate(GENS)
    ctx.lake_build(MODULES)
    ctx.audit(MODULES)
    rng = ctx.rng
    d = ctx.build_repo("plain")
    cr = CanvasRunner(ctx, d)
    kinds = {}
    distinct = set()
    reqs, wants, infos = [], [], []
    n = ctx.n(10, 300)
    for t in range(n):
        cfg = gen_config(rng, [None, "all-at-once", None, "trailing-parallel"][t % 4])
        detach = (t % 3 == 2)
        # every fourth run the hook command itself exits non-zero: the run must not notice
        hook_fails = (t % 4 == 1)
        res = cr.run(cfg, detach=detach, extra_env=dict(VERIF_HOOK_EXIT=str(rng.choice([1, 3, 127]))) if hook_fails else None)
        started, has_end, failed = analyse(ctx, cfg, res, detach, "canvas%s%s" % ("" if detach else " -d", " with a hook that exits non-zero" if hook_fails else ""))
        if hook_fails:
            kinds["failing-hook"] = kinds.get("failing-hook", 0) + 1
        kinds["detached" if detach else "foreground"] = kinds.get("detached" if detach else "foreground", 0) + 1
        distinct.add((tuple(cfg["steps"]), tuple(cfg["skip"]), cfg["ncpu"], detach))
        ids = {s[0]: i + 1 for i, s in enumerate(cfg["steps"])}
        steps = ",".join("%d:%d:0" % (ids[s[0]], 1 if s[1] else 0) for s in cfg["steps"]) + ",%d:0:1" % (len(cfg["steps"]) + 1)
        exits = ",".join(["0"] + [str(s[3]) for s in cfg["steps"]] + ["0"])
        reqs.append("orchp result %d %s %s %s" % (cfg["ncpu"], ",".join(str(ids[s]) for s in cfg["skip"]) or "-", exits, steps))
        wants.append("%s %s %s" % ("fail" if failed else "ok", "end" if has_end else "noend", ",".join(str(x) for x in sorted(ids[s] for s in started))))
        infos.append(dict(cfg=cfg))
        # ---- resume a failed invocation (fresh vs resumed)
        if failed and t % 2 == 0 and res["builddir"]:
            cfg2 = dict(cfg, steps=[(a, b, c, 0) for a, b, c, _ in cfg["steps"]])
            # every other resume names the step that failed with -s: whatever that is taken to mean, a step
            # that ran keeps a record of its run and a skip record never names a log
            failed_sync = [s_[0] for s_ in cfg["steps"] if not s_[1] and s_[3] != 0 and s_[0] in started]
            if t % 4 == 0 and failed_sync:
                cfg2 = dict(cfg2, cmdline_skip=list(cfg2["cmdline_skip"]) + [failed_sync[0]], skip=list(cfg2["skip"]) + [failed_sync[0]])
            res2 = cr.run(cfg2, detach=False, resume_dir=res["builddir"], root=res["root"], keep_root=True)
            # (the steps the resumed invocation itself ran: the probe log also holds the first run's events)
            ran_ever = set(nm for k, nm, _, _ in res2["events"][len(res["events"]):] if k == "start")
            for r in res2["rows"]:
                if r["skip"] == 1 and (r["log"] or r["name"] in ran_ever):
                    ctx.violation("after resuming%s: the record of step %s is a skip record %s" % (
                        " with -s %s" % failed_sync[0] if cfg2["cmdline_skip"] != cfg["cmdline_skip"] else "", r["name"],
                        "naming the log %s" % r["log"] if r["log"] else "although the step ran"), dict(cfg=cfg2, rows=res2["rows"], first_run_rows=res["rows"]))
                    break
            started2 = [nm for k, nm, _, _ in res2["events"] if k == "start"]
            # the resumed run appends to the same probe/hook logs: look at the part after the first run
            ev2 = res2["events"][len(res["events"]):]
            ran2 = [nm for k, nm, _, _ in ev2 if k == "start"]
            if res2["rc"] != 0 or not any(r["name"] == "end" for r in res2["rows"]) or any(r["exit"] == -1 for r in res2["rows"]):
                ctx.violation("resumed invocation (all steps succeed now) did not finish cleanly", dict(cfg=cfg2, rc=res2["rc"], rows=res2["rows"], ran=ran2))
            logs2 = [r["log"] for r in res2["rows"] if r["log"]]
            if len(set(logs2)) != len(logs2):
                ctx.violation("resumed invocation reused a log file name", dict(rows=res2["rows"]))
            kinds["resumed"] = kinds.get("resumed", 0) + 1
    # ---- the same on a fixed history: step two fails, the invocation is resumed with -s two
    for t in range(ctx.n(2, 8)):
        e2 = rng.choice([1, 3, 7])
        # the failing step is the second one, or the very first (the resume then starts at step 1, where the
        # entry scripts do what they do for a fresh invocation: write the skip records)
        bad = "one" if t % 2 == 0 else "two"
        fcfg = dict(steps=[("one", False, 0, e2 if bad == "one" else 0), ("two", False, 0, e2 if bad == "two" else 0), ("three", bool(t % 4 >= 2), 0, 0)],
                    skip=[], cmdline_skip=[], ncpu=2)
        r1 = cr.run(fcfg)
        if not r1["builddir"]:
            continue
        fcfg2 = dict(fcfg, steps=[("one", False, 0, 0), ("two", False, 0, 0), ("three", bool(t % 4 >= 2), 0, 0)], skip=[bad], cmdline_skip=[bad])
        r2 = cr.run(fcfg2, resume_dir=r1["builddir"], root=r1["root"], keep_root=True)
        kinds["resumed-with-s"] = kinds.get("resumed-with-s", 0) + 1
        ran = set(nm for k, nm, _, _ in r2["events"][len(r1["events"]):] if k == "start")
        for r in r2["rows"]:
            if r["skip"] == 1 and (r["log"] or r["name"] in ran):
                ctx.violation("canvas -r DIR -s %s after step %s failed with exit %d: the record of step %s is a skip record %s" % (
                    bad, bad, e2, r["name"], "naming the log %s" % r["log"] if r["log"] else "although the resumed invocation ran the step"), dict(rows=r2["rows"], first_run_rows=r1["rows"]))
                break
        rows2 = {r["name"]: r for r in r2["rows"]}
        if bad in ran and bad in rows2 and rows2[bad]["skip"] == 0 and rows2[bad]["exit"] not in (0, e2):
            ctx.violation("resumed step %s has exit %s on record" % (bad, rows2[bad]["exit"]), dict(rows=r2["rows"]))
    # ---- a second invocation while the first one runs
    for t in range(ctx.n(4, 40)):
        root = os.path.join(ctx.scratch, "second%d" % t)
        shutil.rmtree(root, ignore_errors=True)
        os.makedirs(root)
        slow = dict(steps=[("a", False, 1500, 0), ("b", False, 0, 0)], skip=[], cmdline_skip=[], ncpu=2)
        resumed = (t % 2 == 1)
        other = None
        if resumed:
            # an earlier, failed invocation B to be resumed while A runs
            failing = dict(steps=[("a", False, 0, 3), ("b", False, 0, 0)], skip=[], cmdline_skip=[], ncpu=2)
            r0 = cr.run(failing, root=root, keep_root=True)
            other = r0["builddir"]
            if other and t % 4 == 3:
                # the tenth invocation of the day runs while the first one is resumed: <date>.1 is a
                # prefix of <date>.10
                for i in range(2, 10):
                    os.makedirs(os.path.join(root, os.path.basename(other)[:-1] + str(i), "tmp"))
            elif other:
                os.rename(other, os.path.join(root, "2001-01-01.1"))
                other = os.path.join(root, "2001-01-01.1")
            if other:
                for f in ("probe.log", "hook.log", "mail.log"):
                    if os.path.exists(os.path.join(root, f)):
                        os.unlink(os.path.join(root, f))
        import threading
        box = {}
        th = threading.Thread(target=lambda: box.update(first=cr.run(slow, root=root, keep_root=True)))
        th.start()
        t0 = time.time()
        while not os.path.exists(os.path.join(root, ".running")) and time.time() - t0 < 10:
            time.sleep(0.02)
        time.sleep(0.3)
        first_dir = open(os.path.join(root, ".running")).read().strip() if os.path.exists(os.path.join(root, ".running")) else None
        before = snapshot(first_dir) if first_dir else {}
        lock_before = open(os.path.join(root, ".running")).read() if first_dir else None
        env = cr.sh.env(dict(VERIF_ROOT=root, VERIF_PROBE_LOG=os.path.join(root, "probe2.log"), VERIF_PROBE_PLAN=os.path.join(root, "plan"),
                             VERIF_HOOK_LOG=os.path.join(root, "hook2.log"), VERIF_MAIL_LOG=os.path.join(root, "mail2.log"),
                             ROBSD_VERIF_NCPU="2", ROBSDWAIT=cr.wait, ROBSDCONF=os.path.join(root, "canvas.conf")))
        args = ["-d", "-C", os.path.join(root, "canvas.conf")] + (["-r", other] if resumed and other else [])
        r2 = subprocess.run(["bash", "-O", "lastpipe", os.path.join(d, "canvas")] + args, capture_output=True, env=env, timeout=60)
        after = snapshot(first_dir) if first_dir else {}
        lock_after = open(os.path.join(root, ".running")).read() if os.path.exists(os.path.join(root, ".running")) else None
        th.join()
        what = "second %s invocation while the first runs" % ("resumed" if resumed else "fresh")
        info = dict(rc=r2.returncode, stdout=r2.stdout.decode(errors="replace")[-300:], first=first_dir, resumed_dir=other)
        if first_dir is None:
            continue
        if r2.returncode == 0:
            ctx.violation("%s was not refused" % what, info)
        changed = [k for k in set(before) | set(after) if before.get(k) != after.get(k) and not k.endswith(".log") and k not in ("step.csv", "stat.csv", "robsd.log")]
        if changed or lock_before != lock_after:
            ctx.violation("%s touched the first invocation: %s" % (what, changed or "lock file"),
                          dict(info, new_or_changed={k: after.get(k, b"")[:200].decode(errors="replace") for k in changed}))
        if os.path.exists(os.path.join(root, "probe2.log")):
            ctx.violation("%s executed steps" % what, info)
        # the same through the lock model: an invocation arriving while .running names the first one
        nmail2 = open(os.path.join(root, "mail2.log")).read().count("=== sendmail") if os.path.exists(os.path.join(root, "mail2.log")) else 0
        newrep = len([k for k in changed if k == "report" or k.endswith("/report")])
        reqs.append("lock invoke %s %s %d 0 0 0" % (hexb(first_dir.encode()), hexb((other or (first_dir + ".new")).encode()), 1 if resumed else 0))
        wants.append("%d lock=%s reports=%d mails=%d own=1" % (1 if r2.returncode != 0 else 0, hexb(lock_after.strip().encode()) if lock_after else "!", newrep, nmail2))
        infos.append(dict(info, what=what))
        first = box.get("first")
        if first:
            analyse(ctx, slow, first, False, "first invocation (with a refused second one)")
        kinds["second-" + ("resumed" if resumed else "fresh")] = kinds.get("second-" + ("resumed" if resumed else "fresh"), 0) + 1
    # ---- two parallel steps that fail in overlapping windows, the first one leaving a child behind that keeps its
    # output open for a while (its record is written only then): each record and hook call carries its own step's exit
    for t in range(ctx.n(1, 6)):
        e1, e2 = (1, 3) if t == 0 else rng.choice([(1, 3), (2, 1), (7, 9), (1, 0), (0, 5)])
        ocfg = dict(steps=[("first", False, 0, 0), ("p1", True, 0, e1), ("p2", True, rng.choice([600, 1000]), e2), ("last", False, 0, 0)],
                    skip=[], cmdline_skip=[], ncpu=2, linger={"p1": rng.choice([1800, 2500])})
        detach = (t % 3 == 2)
        res = cr.run(ocfg, detach=detach)
        analyse(ctx, ocfg, res, detach, "canvas%s with two parallel steps finishing in overlapping windows" % ("" if detach else " -d"))
        kinds["overlapping-parallel-failures"] = kinds.get("overlapping-parallel-failures", 0) + 1
    # ---- ended by robsd-kill (the immutable flag emulated by the chflags/touch/rm shims): the step that runs is
    # terminated and recorded, hook and report follow, the lock is gone afterwards and
    # the next invocation is accepted
    import threading
    for t in range(ctx.n(2, 12)):
        par = (t % 2 == 1)
        detach = (t % 4 >= 2)
        root = os.path.join(ctx.scratch, "c11kill%d" % t)
        shutil.rmtree(root, ignore_errors=True)
        kcfg = dict(steps=[("a", False, 0, 0), ("b", par, 8000, 0), ("c", False, 0, 0)], skip=[], cmdline_skip=[], ncpu=2)
        box = {}
        th = threading.Thread(target=lambda: box.update(res=cr.run(kcfg, detach=detach, root=root, extra_env=dict(VERIF_UCHG="1"), timeout=60)))
        th.start()
        t0 = time.time()
        inflight = False
        while time.time() - t0 < 15 and not inflight:
            time.sleep(0.05)
            for dn in [x for x in (os.listdir(root) if os.path.isdir(root) else []) if x[:2] == "20"]:
                sp = os.path.join(root, dn, "step.csv")
                if os.path.exists(sp) and any(l.split(",")[1:3] == ["b", "-1"] for l in open(sp).read().split("\n")[1:] if l):
                    inflight = True
        time.sleep(0.4)
        krc, kout, kerr = cr.sh.run_script("robsd-kill", ["-m", "canvas"], extra=dict(ROBSDCONF=os.path.join(root, "canvas.conf"), VERIF_UCHG="1"), timeout=40)
        th.join()
        res = box.get("res")
        what = "canvas%s ended by robsd-kill while its %s step ran" % ("" if detach else " -d", "parallel" if par else "second")
        kinds["robsd-kill" + ("-parallel" if par else "") + ("-detached" if detach else "")] = 1 + kinds.get("robsd-kill" + ("-parallel" if par else "") + ("-detached" if detach else ""), 0)
        if not inflight or res is None:
            continue        # the run did not get as far as step b in 15 s: nothing to observe
        info = dict(kill_rc=krc, kill_stderr=kerr.decode(errors="replace")[-300:], rc=res["rc"], rows=res["rows"], hooks=res["hooks"], stderr=res["stderr"][-400:],
                    lock_left=res["lock_left"], flag_left=os.path.exists(os.path.join(root, ".running.verif-uchg")),
                    scenario="steps a, b (sleeps 8 s%s), c; robsd-kill -m canvas once b is in flight; chflags/touch/rm shims emulate the immutable flag" % (", parallel" if par else ""))
        rows = {r["name"]: r for r in res["rows"]}
        if krc != 0:
            ctx.violation("%s: robsd-kill itself failed (%s)" % (what, krc), info)
        if res["lock_left"] or info["flag_left"]:
            ctx.violation("%s: the lock file is still there afterwards%s" % (what, " (and still immutable)" if info["flag_left"] else ""), info)
        if "b" not in rows or rows["b"]["exit"] in (0, -1):
            ctx.violation("%s: the terminated step is recorded as %s" % (what, rows.get("b", {}).get("exit", "nothing")), info)
        # (whether a later step still starts is robsd-kill's business, not this property's: with a parallel step
        # terminated, the synchronous step behind the barrier does start and robsd-kill's loop takes care of it)
        if not par and ("c" in rows or "end" in rows):
            ctx.violation("%s: the run went on after its synchronous step was terminated (%s recorded)" % (what, "c" if "c" in rows else "end"), info)
        if not detach and res["rc"] == 0:
            ctx.violation("%s: the invocation exited 0" % what, info)
        if res["report"] is None:
            ctx.violation("%s: no report although a step failed" % what, info)
        hk = [(h[0], h[1]) for h in res["hooks"] if len(h) >= 2]
        if "b" in rows and hk.count(("b", str(rows["b"]["exit"]))) != 1:
            ctx.violation("%s: the hook did not run exactly once for the terminated step with its exit %s: %s" % (what, rows["b"]["exit"], hk), info)
        nmail = res["mail"].count("=== sendmail")
        if nmail != (1 if detach else 0):
            ctx.violation("%s: %d mails" % (what, nmail), info)
        # the next invocation on that root is accepted
        nxt = cr.run(dict(steps=[("z", False, 0, 0)], skip=[], cmdline_skip=[], ncpu=1), root=root, keep_root=True, extra_env=dict(VERIF_UCHG="1"))
        if nxt["rc"] != 0 or not any(r["name"] == "end" for r in nxt["rows"]):
            ctx.violation("%s: the next invocation is not accepted (exit %s)" % (what, nxt["rc"]), dict(info, next_stderr=nxt["stderr"][-300:], next_stdout=nxt["stdout"][-300:]))
        bdir = res["builddir"] or ""
        reqs.append("lock killed %s %s %d %d" % (hexb(bdir.encode()), hexb(bdir.encode()), rows.get("b", {}).get("exit", 1) or 1, 1 if detach else 0))
        wants.append("lock=%s immutable=%d reports=%d mails=%d alive=0 next=%d" % ("!" if not res["lock_left"] else "left", 1 if info["flag_left"] else 0,
                                                                                   0 if res["report"] is None else 1, nmail, 1 if nxt["rc"] == 0 else 0))
        infos.append(dict(info, what=what))
        # the loop itself: Orch.runK with the exit the terminated step was recorded with; the lock is found dead
        # by the test that follows the first step completed after robsd-kill (b when synchronous, else c)
        bex = rows.get("b", {}).get("exit", 1) or 1
        seen_at = 3 if par else 2
        reqs.append("orchp resultk 2 - 0,0,%d,0,0 1:0:0,2:%d:0,3:0:0,4:0:1 %d" % (bex, 1 if par else 0, seen_at))
        ran = sorted({"a": 1, "b": 2, "c": 3}[r["name"]] for r in res["rows"] if r["name"] in ("a", "b", "c"))
        wants.append("%s %s %s" % ("fail" if (res["rc"] != 0 or detach) else "ok", "end" if "end" in rows else "noend", ",".join(map(str, ran))))
        infos.append(dict(info, what=what + " (Orch.runK)"))
    ans = ctx.model(reqs) if reqs else []
    for q, a, w, info in zip(reqs, ans, wants, infos):
        f = a.strip().split(" ")
        if len(f) == 3:
            # the set of steps that ran: parallel steps launched back to back stamp their start in either order
            a = " ".join(f[:2] + [",".join(str(x) for x in sorted(int(y) for y in f[2].split(",") if y))])
        if a.strip() != w.strip():
            ctx.disagreement("Orch.run vs real canvas (outcome)", dict(request=q[:300], impl=w, model=a, info=info))
    # known findings: re-observe, print, do not fail
    ctx.cov.update(dict(
        evaluations=n + sum(v for k, v in kinds.items() if k.startswith("second") or k == "resumed"), distinct_nontrivial=len(distinct),
        rule="the C04 canvas generator, foreground (-d) and background (mail captured), resumed after a failure, and a second fresh/resumed invocation "
             "started while a slow first one holds the lock; two parallel steps failing in overlapping windows (the first keeps its output open through a lingering child); invocations ended by robsd-kill while a sequential / parallel step runs (immutable flag emulated by shims; compared with Lock.killed); for each run: records (one per executed step, real exit, duration >= 0, own log holding the output), skip "
             "records, no in-flight record, hook calls (with the builddir they saw), lock content sampled by the probes and gone afterwards, report iff failed or end, "
             "mail once iff background; non-trivial = distinct (configuration, mode)",
        samples=[dict(request=q[:200], impl=w) for q, w in list(zip(reqs, wants))[:3]],
        traces_validated_against_impl=len(reqs), outcome_kinds=kinds))
    ctx.assumptions += ["as C04: completion timings are sampled on the implementation"]
