"""C17: new invocations and re-run steps never reuse an existing name."""
import datetime
import os
import shutil

from .. import core
from ..core import hexb
from ..shellenv import ShellEnv
from ..canvasrun import CanvasRunner

MODULES = ["Robsd.Props.C17"]
GENS = []
NAMES = ["env", "cvs", "kernel", "bin/ksh", "lib/libc/sys", "usr.bin/ssh", "a.b", "x_y-z", "end", "a", "a.log"]


def run(ctx):
    ctx.translate(GENS)
    ctx.lake_build(MODULES)
    ctx.audit(MODULES)
    rng = ctx.rng
    d = ctx.build_repo("plain")
    sh = ShellEnv(ctx, d)
    base = os.path.join(ctx.scratch, "c17")
    today = datetime.date.today().strftime("%Y-%m-%d")
    reqs, obs = [], []
    kinds = {}
    distinct = set()
    # ---- build_id on generated roots (gaps left by cleaning, > 9 per day, other days, attic, stray files)
    for t in range(ctx.n(120, 3000)):
        shutil.rmtree(base, ignore_errors=True)
        root = os.path.join(base, "root")
        os.makedirs(root)
        k = rng.choice([0, 1, 2, 3, 9, 10, 11, 12, 15])
        present = sorted(rng.sample(range(1, k + 3), min(k, k + 2))) if k else []
        if rng.random() < 0.5 and present:
            # remove the oldest ones, as cleaning does
            present = present[rng.randint(0, len(present) - 1):]
        if t % 6 == 4:
            # beyond 99 invocations a day, short counters still present
            present = sorted(set(rng.sample([1, 5, 42, 98, 99, 100, 101, 250, 999, 1000], rng.randint(2, 5))))
        names = ["%s.%d" % (today, i) for i in present]
        for other in rng.sample(["2020-01-01.1", "2020-01-01.2", "1999-12-31.7", today[:8] + "00.3"], rng.randint(0, 3)):
            names.append(other)
        for nm in names:
            os.makedirs(os.path.join(root, nm, "tmp"))
        if rng.random() < 0.4:
            os.makedirs(os.path.join(root, "attic", today[:4], today[5:7], today[8:] + ".1"))
        if rng.random() < 0.3:
            open(os.path.join(root, today + ".99x"), "w").close()   # a plain file, not a directory
        rc, out, err = sh.call('build_id "%s"' % root)
        got = out.decode().strip()
        dirs = [n for n in os.listdir(root) if os.path.isdir(os.path.join(root, n))]
        reqs.append("buildid %s %s" % (hexb(today.encode()), ",".join(hexb(n.encode()) for n in dirs) or "."))
        obs.append(hexb(got.encode()))
        kinds["build_id"] = kinds.get("build_id", 0) + 1
        if rc != 0 or not got.startswith(today + ".") or os.path.exists(os.path.join(root, got)):
            ctx.violation("build_id returned '%s' which %s" % (got, "already exists" if os.path.exists(os.path.join(root, got)) else "is not a name of today"),
                          dict(root_dirs=sorted(dirs), cmd="bash -O lastpipe -c '. util.sh; build_id ROOT'", today=today))
        if len(present) >= 2:
            distinct.add(("b",) + tuple(present))
    # ---- midnight passes while build_id runs: every reading of the date after the first one already shows
    # the next day (date shim); the name must still be new, and be one of the two days
    seqf = os.path.join(ctx.scratch, "c17dates")
    for t in range(ctx.n(6, 120)):
        shutil.rmtree(base, ignore_errors=True)
        root = os.path.join(base, "root")
        os.makedirs(root)
        d0 = datetime.date(2024, rng.randint(1, 12), rng.randint(1, 28))
        d1 = d0 + datetime.timedelta(days=1)
        day0, day1 = d0.strftime("%Y-%m-%d"), d1.strftime("%Y-%m-%d")
        names = ["%s.%d" % (day0, i) for i in sorted(rng.sample(range(1, 14), rng.randint(1, 6)))]
        if t % 3 == 0 and day0 + ".1" not in names:
            names.append(day0 + ".1")
        names += ["%s.%d" % (day1, i) for i in sorted(rng.sample(range(1, 5), rng.choice([0, 0, 1, 2])))]
        for nm in names:
            os.makedirs(os.path.join(root, nm, "tmp"))
        open(seqf, "w").write(day0 + "\n" + day1 + "\n")
        rc, out, err = sh.call('build_id "%s"' % root, extra=dict(VERIF_DATE_SEQ=seqf))
        got = out.decode().strip()
        kinds["build_id-at-midnight"] = kinds.get("build_id-at-midnight", 0) + 1
        if rc != 0 or not (got.startswith(day0 + ".") or got.startswith(day1 + ".")) or os.path.exists(os.path.join(root, got)):
            ctx.violation("build_id returned '%s' which %s (the date changed from %s to %s while it ran)" % (
                got, "already exists" if os.path.exists(os.path.join(root, got)) else "is not a name of either day", day0, day1),
                dict(root_dirs=sorted(names), cmd="bash -O lastpipe -c '. util.sh; build_id ROOT' with a date(1) that answers %s once and %s from then on" % (day0, day1)))
        # the unchanged build_id reads the date once: the model with the first day
        reqs.append("buildid %s %s" % (hexb(day0.encode()), ",".join(hexb(n.encode()) for n in names) or "."))
        obs.append(hexb(got.encode()))
    # ---- log_id over sequences of attempts
    for t in range(ctx.n(80, 2000)):
        shutil.rmtree(base, ignore_errors=True)
        bdir = os.path.join(base, "build")
        os.makedirs(os.path.join(bdir, "tmp"))
        seen = {}
        # a few steps, each attempted several times (a step re-run again and again), from different working
        # directories: the operator's, the invocation directory itself (robsd -r .), its tmp directory
        pairs = [(rng.choice(NAMES), rng.choice([1, 2, 9, 10, 99, 100, 123])) for _ in range(rng.randint(1, 4))]
        cwd = rng.choice([None, None, bdir, bdir, os.path.join(bdir, "tmp")])
        for a in range(rng.randint(1, 14)):
            name, step = rng.choice(pairs)
            rc, out, err = sh.call('%slog_id -b "%s" -n "%s" -s %d' % ('cd "%s" && ' % cwd if cwd else "", bdir, name, step))
            got = out.decode().strip()
            files = []
            for dp, dn, fn in os.walk(bdir):
                files += fn
            reqs.append("logid %d %s %s" % (step, hexb(name.encode()), ",".join(hexb(f.encode()) for f in files) or "."))
            obs.append(hexb(got.encode()))
            kinds["log_id"] = kinds.get("log_id", 0) + 1
            kinds["log_id-cwd-%s" % ("elsewhere" if cwd is None else "invocation" if cwd == bdir else "invocation/tmp")] = kinds.get("log_id-cwd-%s" % ("elsewhere" if cwd is None else "invocation" if cwd == bdir else "invocation/tmp"), 0) + 1
            if rc != 0 or not got or os.path.exists(os.path.join(bdir, got)) or "/" in got:
                ctx.violation("log_id returned '%s' for attempt %d of step %d '%s': %s" % (got, seen.get((step, name), 0) + 1, step, name,
                                                                                             "the file exists already" if os.path.exists(os.path.join(bdir, got)) else "bad name"),
                              dict(files=sorted(files), cwd=cwd or "(the check's)", cmd="bash -O lastpipe -c '. util.sh; %slog_id -b BUILD -n %s -s %d'" % ("cd CWD && " if cwd else "", name, step)))
                break
            with open(os.path.join(bdir, got), "w") as f:
                f.write("attempt\n")
            seen[(step, name)] = seen.get((step, name), 0) + 1
            if seen[(step, name)] >= 2:
                distinct.add(("l", step, name, seen[(step, name)]))
    # ---- many real invocations on one day in one root, with the retention at work in between
    cr = CanvasRunner(ctx, d)
    nreal = 0
    for t in range(ctx.n(1, 8)):
        root = os.path.join(ctx.scratch, "c17real%d" % t)
        keep = rng.choice([1, 2, 3]) if t else 3
        attic = rng.random() < 0.7 if t else True
        seen = []
        cfg = dict(steps=[("one", False, 0, 0), ("two/x", False, 0, 0)], skip=[], cmdline_skip=[], ncpu=1)
        for i in range(ctx.n(12, 14)):
            res = cr.run(cfg, root=root, keep_root=(i > 0), hook=False, extra_conf="keep %d\nkeep-attic %s\n" % (keep, "yes" if attic else "no"))
            nreal += 1
            b = os.path.basename(res["builddir"]) if res["builddir"] else None
            info = dict(root_listing=sorted(os.listdir(root)), keep=keep, attic=attic, invocation=i + 1, names_so_far=seen, rc=res["rc"], stderr=res["stderr"][-400:],
                        how="canvas -d -C <conf with keep %d> run %d times in a row on one root (bash, real robsd-clean/robsd-ls)" % (keep, i + 1))
            if res["rc"] != 0 or b is None:
                ctx.violation("invocation %d on a root with %d earlier ones of today failed (rc=%s) or created no directory" % (i + 1, i, res["rc"]), info)
                break
            if b in seen:
                ctx.violation("invocation %d was given the directory %s, which invocation %d already used" % (i + 1, b, seen.index(b) + 1), info)
                break
            seen.append(b)
            # an invocation moved to the attic stays a single record
            ad = os.path.join(root, "attic")
            nested = [os.path.join(dp, x) for dp, dn, fn in os.walk(ad) for x in dn if x.startswith(today[8:] + ".") and os.path.basename(dp).startswith(today[8:] + ".")] if os.path.isdir(ad) else []
            if nested:
                ctx.violation("the attic holds an invocation nested inside another one: %s" % nested[:2], info)
                break
        kinds["real-invocations"] = nreal
        distinct.add(("real", keep, attic))
    # ---- a step executed again and again in one invocation, resumed by its real path and through a symbolic
    # link to it (an operator's `current` link): every attempt gets a new log, earlier logs stay as they are
    for t in range(ctx.n(1, 6)):
        root = os.path.join(ctx.scratch, "c17again%d" % t)
        shutil.rmtree(root, ignore_errors=True)
        acfg = dict(steps=[("one", False, 0, 0), ("flaky/two", False, 0, 3)], skip=[], cmdline_skip=[], ncpu=1)
        r1 = cr.run(acfg, root=root, hook=False)
        if not r1["builddir"]:
            continue
        link = os.path.join(root, "current")
        os.symlink(os.path.basename(r1["builddir"]), link)
        seen_logs = {fn: c for fn, c in r1["logs"].items() if fn != "robsd.log"}     # (robsd.log is the invocation's own, appended to)
        for attempt, via in enumerate([r1["builddir"], link, link if t % 2 else r1["builddir"]]):
            r = cr.run(acfg, root=root, keep_root=True, hook=False, resume_dir=via)
            real = {fn: open(os.path.join(r1["builddir"], fn), errors="replace").read() for fn in os.listdir(r1["builddir"]) if (fn.endswith(".log") or ".log." in fn) and fn != "robsd.log"}
            changed = [fn for fn, c in seen_logs.items() if real.get(fn) != c]
            new = [fn for fn in real if fn not in seen_logs]
            nreal += 1
            if changed or len(new) != 1:
                ctx.violation("resuming an invocation %s (attempt %d of its failing step): %s" % (
                    "through a symbolic link to it" if via == link else "by its path", attempt + 2,
                    "the log %s of an earlier attempt was overwritten" % changed[0] if changed else "%d new log files instead of one" % len(new)),
                    dict(logs_before=sorted(seen_logs), logs_after=sorted(real), rows=r["rows"], cmd="canvas -d -C CONF -r %s" % ("ROOT/current" if via == link else "ROOT/<invocation>")))
                break
            seen_logs = real
        kinds["re-run-via-link"] = kinds.get("re-run-via-link", 0) + 1
    ans = ctx.model(reqs) if reqs else []
    for q, a, want in zip(reqs, ans, obs):
        if a != want:
            ctx.disagreement("Clean.%s vs util.sh under bash" % ("buildId" if q.startswith("buildid") else "logId"),
                             dict(request=q[:400], impl=bytes.fromhex(want).decode() if want != "-" else "", model=bytes.fromhex(a).decode() if a != "-" else ""))
    ctx.cov.update(dict(
        evaluations=len(reqs), distinct_nontrivial=len(distinct),
        rule="roots holding 0-15 invocations of today with gaps (oldest removed as cleaning does), more than nine per day, directories of other days, an attic, "
             "a plain file named like an invocation; sequences of 1-14 attempts of 1-4 steps (so the same step is attempted many times), run from the check's directory, from the invocation directory and from its tmp directory, with names over letters, digits, '.', '_', '-', '/' and ids 1..123; "
             "non-trivial = distinct state with >= 2 invocations of today / a step attempted >= 2 times; util.sh build_id/log_id run under bash and compared with "
             "the model; freshness (the returned name does not exist) checked directly; 12-14 real canvas invocations in a row on one root with keep 1-3 (attic on/off): "
             "every invocation gets a directory name no earlier invocation of that root had, attic records stay single",
        samples=[dict(request=q[:160], impl=w) for q, w in list(zip(reqs, obs))[:: max(1, len(reqs) // 4)][:4]],
        traces_validated_against_impl=len(reqs), outcome_kinds=kinds))
