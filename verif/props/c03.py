"""C03: resume restarts exactly at the step that did not complete successfully."""
import os
import shutil

from .. import core
from ..core import hexb
from ..shellenv import ShellEnv

MODULES = ["Robsd.Props.C03"]
GENS = ["StepFields"]
HEADER = b"step,name,exit,duration,delta,log,user,time,skip\n"


def row(i, name, ex, skip=0):
    return b"%d,%s,%d,%d,0,%03d-%s.log,root,17000000%02d,%d\n" % (i, name, ex, 0 if skip else 5, i, name, i % 100, skip)


def concretise(slots, n):
    """slot list -> CSV bytes; step k (0-based) has id k+1, the last one is `end`"""
    out = HEADER
    for k, s in enumerate(slots):
        name = b"end" if k == n - 1 else b"s%d" % (k + 1)
        if s == "e":
            continue
        if s == "s":
            out += b"%d,%s,0,0,0,,root,1700000000,1\n" % (k + 1, name)
        else:
            out += row(k + 1, name, int(s[1:]))
    return out


def gen_slots(rng):
    """good files, as the orchestrator leaves them, and arbitrary ones"""
    n = rng.randint(1, 9)
    skip = sorted(rng.sample(range(max(0, n - 1)), rng.randint(0, max(0, (n - 1) // 2)))) if n > 1 else []
    if rng.random() < 0.7:
        nonskip = [j for j in range(n) if j not in skip]
        q = rng.choice(nonskip)
        slots = []
        for j in range(n):
            if j in skip:
                slots.append("s" if rng.random() < 0.95 else "e")
            elif j < q:
                slots.append("r0")
            elif j == q:
                slots.append(rng.choice(["e", "r-1", "r1", "r124", "r0", "r255", "r143", "r-2"]))
            else:
                slots.append("e")
    else:
        slots = [rng.choice(["e", "s", "r0", "r0", "r1", "r-1"]) for _ in range(n)]
    return n, skip, slots


def gen_arbitrary_file(rng, names=(b"env", b"cvs", b"kernel", b"end", b"end", b"x/y")):
    """any mix of rows: id gaps, no end, end in the middle, skipped tails"""
    ids = sorted(rng.sample(range(1, 40), rng.randint(0, 8)))
    out = HEADER if (ids or rng.random() < 0.5) else b""
    for i in ids:
        name = rng.choice(names)
        skip = 1 if rng.random() < 0.3 else 0
        # exit fields as any writer of the file may leave them: 0, the shell's 1..255, in flight (-1), and other
        # non-zero values (negative, beyond 255): anything but 0 means the step did not complete successfully
        ex = 0 if skip else rng.choice([0, 0, 0, 1, -1, 124, 255, 256, -2, -255, 2147483647, -2147483648, 143])
        out += row(i, name, ex, skip)
    return out


def run(ctx):
    ctx.translate(GENS)
    ctx.lake_build(MODULES)
    ctx.audit(MODULES)
    rng = ctx.rng
    d = ctx.build_repo("plain")
    sh = ShellEnv(ctx, d)
    work = os.path.join(ctx.scratch, "c03")
    os.makedirs(work, exist_ok=True)
    path = os.path.join(work, "step.csv")
    reqs, wants, infos = [], [], []
    kinds = {}
    distinct = set()
    n_files = ctx.n(150, 3000)
    rconf = os.path.join(work, "regress.conf")
    open(rconf, "w").write('robsddir "%s"\nbsd-srcdir "%s"\ncvs-user "nobody"\nregress "bin/cat"\nregress "usr.bin/patch" no-parallel\n' % (work, work))
    for t in range(n_files):
        if t % 3 != 2:
            n, skip, slots = gen_slots(rng)
            content = concretise(slots, n)
            info = dict(kind="slots", n=n, skip=skip, slots=slots)
        else:
            # half of the arbitrary files are histories of robsd-regress (the last record is often a regress
            # test that failed): the same decision table, whatever the mode
            regress_mode = (t % 6 == 5)
            content = gen_arbitrary_file(rng, (b"env", b"pkg-add", b"bin/cat", b"usr.bin/patch", b"bin/cat", b"end", b"dmesg")) if regress_mode else gen_arbitrary_file(rng)
            info = dict(kind="arbitrary", file=content.decode(), mode="robsd-regress" if regress_mode else "canvas")
        with open(path, "wb") as f:
            f.write(content)
        if info.get("mode") == "robsd-regress":
            rc, out, err = sh.call('step_next "%s"' % path, mode="robsd-regress", extra=dict(ROBSDCONF=rconf))
        else:
            rc, out, err = sh.call('step_next "%s"' % path)
        got = "%d %s" % (rc, out.decode().strip() or "-")
        reqs.append("stepnext " + hexb(content))
        wants.append(got)
        infos.append(info)
        kinds["rc%d" % rc] = kinds.get("rc%d" % rc, 0) + 1
        if info["kind"] == "slots":
            # the abstraction: slots -> resumeAt, compared with the real step_next on the concretised file
            reqs.append("orch resume %d %s %s" % (n, ",".join(map(str, skip)) or "-", " ".join(slots)))
            wants.append("none" if rc != 0 else str(int(out.decode().strip()) - 1))
            infos.append(info)
        # model-free oracle: the decision table of the property
        rows = [l.split(b",") for l in content.split(b"\n")[1:] if l]
        nonskipped = [r for r in rows if r[8] != b"1"]
        if not nonskipped:
            want = (1, None)
        else:
            last = nonskipped[-1]
            sid, ex, name = int(last[0]), int(last[2]), last[1]
            want = (0, sid if (ex != 0 or name == b"end") else sid + 1)
        gotv = (rc, int(out.decode().strip()) if rc == 0 and out.strip() else None)
        if (want[0] != 0) != (gotv[0] != 0) or (want[0] == 0 and want[1] != gotv[1]):
            ctx.violation("step_next gives %s, the property's decision table gives %s" % (gotv, want),
                          dict(file=content.decode(), cmd="bash -O lastpipe -c '. util.sh; step_next FILE' (real robsd-step)", stderr=err.decode()[-300:]))
        if nonskipped:
            distinct.add(content)
        # has_steps (trap_exit removes the invocation directory when it says no): must say yes exactly
        # when step_next finds a resume point, or an interrupted invocation could not be resumed
        hrc, hout, herr = sh.call('has_steps "%s"' % path)
        reqs.append("hassteps " + hexb(content))
        wants.append(str(hrc))
        infos.append(info)
        kinds["has_steps=%d" % hrc] = kinds.get("has_steps=%d" % hrc, 0) + 1
        if (hrc == 0) != (rc == 0):
            ctx.violation("has_steps says %s but step_next %s: the exit handler %s" % (
                "yes" if hrc == 0 else "no", "finds a resume point" if rc == 0 else "fails",
                "removes a resumable invocation" if rc == 0 else "keeps an invocation that cannot be resumed"),
                dict(file=content.decode(), cmd="bash -O lastpipe -c '. util.sh; has_steps FILE; step_next FILE'", stderr=herr.decode()[-300:]))

    # -- end to end: real canvas runs, SIGKILLed right after write number k, then canvas -r
    nruns = ctx.n(8, 120)
    e2e = 0
    for t in range(nruns):
        root = os.path.join(work, "root%d" % t)
        shutil.rmtree(root, ignore_errors=True)
        os.makedirs(root)
        nsteps = rng.randint(2, 5)
        names = ["s%d" % (k + 1) for k in range(nsteps)]
        skip = [nm for nm in names if rng.random() < 0.25][: max(0, nsteps - 1)]
        failing = rng.choice(names + [None, None])
        if t == 0 and not skip:
            skip = [names[0]]
        conf = os.path.join(root, "canvas.conf")
        with open(conf, "w") as f:
            f.write('canvas-name "t"\ncanvas-dir "%s"\n' % root)
            if skip:
                f.write("skip { %s }\n" % " ".join('"%s"' % s for s in skip))
            for nm in names:
                f.write('step "%s" command { "%s" "%s" }\n' % (nm, os.path.join(sh.bin, "probe"), nm))
        plan = os.path.join(root, "plan")
        with open(plan, "w") as f:
            for nm in names:
                f.write("%s 0 %d\n" % (nm, 3 if nm == failing else 0))
        probe_log = os.path.join(root, "probe.log")
        cnt = os.path.join(root, "killcnt")
        nwrites = len(skip) + 2 * (nsteps - len(skip)) + 1
        kill_at = rng.randint(1, nwrites)
        if t == 0:
            # always explore a kill inside the skip phase ...
            skip = skip or [names[0]]
            kill_at = 1
        elif t == 1:
            # ... and one while the first executed step is in flight
            kill_at = len(skip) + 1
        # every third run the orchestrator is first asked to terminate (its exit handler runs), then killed
        killsig = "TERM" if t % 3 == 1 else "KILL"
        extra = dict(VERIF_ROOT=root, VERIF_PROBE_LOG=probe_log, VERIF_PROBE_PLAN=plan, VERIF_KILL_AT=str(kill_at), VERIF_KILL_CNT=cnt, VERIF_KILL_SIG=killsig,
                     VERIF_ORCH_PGID=os.path.join(root, "pgid"), VERIF_REAL_STEP=os.path.join(d, "robsd-step"),
                     ROBSDSTEP=os.path.join(sh.bin, "robsd-step-wrap"), ROBSDCONF=conf)
        rc1, o1, e1 = sh.run_script("canvas", ["-d", "-C", conf], extra=extra, pgid_file=os.path.join(root, "pgid"))
        builds = sorted(x for x in os.listdir(root) if x[:2] == "20")
        if not builds:
            plog = open(probe_log).read() if os.path.exists(probe_log) else ""
            started0 = [l.split()[1] for l in plog.split("\n") if l.startswith("start ")]
            kl = [l for l in plog.split("\n") if l.startswith("killed after write")]
            if kl and " skip=0" in kl[0] and not started0:
                started0 = [w.split("=", 1)[1] for w in kl[0].split() if w.startswith("name=")]
            if started0:
                # a step had been started (its in-flight record written): the interrupted invocation must stay resumable
                ctx.violation("the invocation directory is gone after the orchestrator was interrupted (%s after write %d of %d) while step %s was in flight: nothing to resume" % (
                    killsig, kill_at, nwrites, started0[-1]), dict(conf=open(conf).read(), kill_at=kill_at, signal=killsig, started=started0, stderr=e1.decode(errors="replace")[-300:]))
            continue
        bdir = os.path.join(root, builds[0])
        # the crash left the lock behind: every other run resumes with the stale lock in place (the same
        # invocation re-acquires it), the others after it was cleared as robsd-kill / a reboot would
        stale = (t % 2 == 0)
        if not stale:
            try:
                os.unlink(os.path.join(root, ".running"))
            except OSError:
                pass
        csv_before = open(os.path.join(bdir, "step.csv"), "rb").read() if os.path.exists(os.path.join(bdir, "step.csv")) else b""
        first = [l.split()[1] for l in open(probe_log).read().split("\n") if l.startswith("start ")] if os.path.exists(probe_log) else []
        killed = os.path.exists(probe_log) and "killed after write" in open(probe_log).read()
        # resume, no kill this time
        open(probe_log, "a").write("--- resume\n")
        extra2 = dict(extra)
        extra2.pop("VERIF_KILL_AT")
        if not os.path.isdir(bdir):
            ctx.violation("the invocation directory of an interrupted invocation (%s, write %d of %d) is gone: nothing to resume" % (killsig, kill_at, nwrites),
                          dict(conf=open(conf).read(), kill_at=kill_at, signal=killsig, step_csv=csv_before.decode(), first_run=first, stderr=e1.decode(errors="replace")[-300:]))
            continue
        with open(plan, "w") as f:
            for nm in names:
                f.write("%s 0 0\n" % nm)
        rc2, o2, e2 = sh.run_script("canvas", ["-d", "-C", conf, "-r", bdir], extra=extra2)
        second = [l.split()[1] for l in open(probe_log).read().split("--- resume\n")[1].split("\n") if l.startswith("start ")]
        e2e += 1
        # oracle from the property: with the history recorded before the resume ...
        rows = [l.split(b",") for l in csv_before.split(b"\n")[1:] if l]
        nonskipped = [r for r in rows if r[8] != b"1"]
        if not nonskipped:
            if rc2 == 0 or second:
                ctx.violation("resume succeeded although nothing but skipped steps was recorded",
                              dict(conf=open(conf).read(), kill_at=kill_at, step_csv=csv_before.decode(), resumed_started=second, rc=rc2))
            continue
        last = nonskipped[-1]
        sid, ex, lname = int(last[0]), int(last[2]), last[1].decode()
        p = sid if (ex != 0 or lname == "end") else sid + 1
        expect = [nm for k, nm in enumerate(names) if k + 1 >= p and nm not in skip]
        if second != expect:
            ctx.violation("resumed invocation started %s, expected exactly %s" % (second, expect),
                          dict(conf=open(conf).read(), kill_at=kill_at, failing=failing, step_csv=csv_before.decode(), first_run=first,
                               resumed=second, stderr=e2.decode()[-400:]))
        # and the model on the same history
        slots = []
        byid = {int(r[0]): r for r in rows}
        for k in range(nsteps + 1):
            r = byid.get(k + 1)
            slots.append("e" if r is None else ("s" if r[8] == b"1" else "r%d" % int(r[2])))
        skipidx = [names.index(s) for s in skip]
        reqs.append("orch resumew %d %s - %s" % (nsteps + 1, ",".join(map(str, skipidx)) or "-", " ".join(slots)))
        started = [nm for nm in second] + (["end"] if rc2 == 0 else [])
        wants.append(None)
        infos.append(dict(kind="e2e", second=second, rc2=rc2, names=names))
        kinds["e2e-kill@%s" % ("skipphase" if kill_at <= len(skip) else "steps")] = kinds.get("e2e-kill@%s" % ("skipphase" if kill_at <= len(skip) else "steps"), 0) + 1
        kinds["e2e-%s" % killsig] = kinds.get("e2e-%s" % killsig, 0) + 1
        kinds["e2e-resume-%s-lock" % ("stale" if stale else "no")] = kinds.get("e2e-resume-%s-lock" % ("stale" if stale else "no"), 0) + 1
    ans = ctx.model(reqs)
    for q, a, w, info in zip(reqs, ans, wants, infos):
        if w is None:
            # e2e: the model's started steps (indices) must match the probes that ran (+ end)
            started = [int(x.split(":")[1]) for x in a.split() if x.startswith("inflight:") or x.startswith("end:")] if a != "none" else []
            names = info["names"] + ["end"]
            model_names = [names[i] for i in started]
            real = info["second"] + (["end"] if info["rc2"] == 0 else [])
            if model_names != real:
                ctx.disagreement("OrchSeq.resumeWrites vs real canvas -r", dict(request=q, model=model_names, real=real))
        elif a != w:
            ctx.disagreement("step_next model vs util.sh step_next under bash", dict(request=q[:600], impl=w, model=a, info=info))
    ctx.cov.update(dict(
        evaluations=len(reqs), distinct_nontrivial=len(distinct),
        rule="step files: 2/3 concretised slot files as the orchestrator leaves them (frontier empty / in flight -1 / failed / exit 0, skips before and after) "
             "plus perturbed ones, 1/3 arbitrary rows (id gaps, end anywhere, skipped tails); real util.sh step_next under bash with the real robsd-step is "
             "compared with StepFile.stepNext, with OrchSeq.resumeAt on the slots, and with the property's decision table; util.sh has_steps (decides whether the exit handler removes the invocation directory) on the same files is compared with StepFile.hasSteps and must agree with step_next finding a resume point (dir_kept_iff_resumable); non-trivial = distinct file with "
             "a non-skipped row. End to end: real canvas -d with probe steps SIGKILLed right after a generated step-file write, then canvas -r; "
             "the steps the resumed run started are compared with the decision table and with OrchSeq.resumeWrites (%d runs)" % e2e,
        samples=[dict(request=q[:300], impl=w, model=a) for q, a, w in list(zip(reqs, ans, wants))[:: max(1, len(reqs) // 5)][:5]],
        traces_validated_against_impl=len(reqs), outcome_kinds=kinds, e2e_runs=e2e))
    ctx.assumptions += ["sequential invocations (the statement's scope); the same configuration and skip set on resume; `end` is never in the skip set"]
