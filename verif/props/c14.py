"""C14: the regress HTML matrix shows every run under its own invocation."""
import os
import re
import shutil
import subprocess

from .. import core
from ..core import hexb
from .c13 import gen_log, c_lines

MODULES = ["Robsd.Props.C14"]
GENS = ["Consts", "RegressHtml"]

HEADER = b"step,name,exit,duration,delta,log,user,time,skip\n"
SUITES = ["bin/ls", "bin/cat", "lib/libc/malloc", "lib/libc/regex", "sys/kern/pipe", "sys/net/pf", "usr.bin/ssh", "usr.bin/make",
          "../share/mk", "../gnu/usr.bin/perl", "sbin/ifconfig", "etc/rc.d"]
ARCHES = ["amd64", "arm64", "sparc64"]
EX_TIMEOUT = 124


def peek(content, words):
    ls = c_lines(content)
    i = 0
    while i < len(ls) and ls[i][:1] == b"+":
        i += 1
    for l in ls[i:]:
        if any(w in l for w in words):
            return True
    return False


def classify(ex, log):
    if ex == EX_TIMEOUT:
        return "NOTERM"
    if ex != 0:
        return "XPASS" if peek(log, [b"UNEXPECTED_PASS"]) else "FAIL"
    if peek(log, [b"EXPECTED_FAIL"]):
        return "XFAIL"
    if peek(log, [b"SKIPPED", b"DISABLED"]):
        return "SKIP"
    return "PASS"


FAILING = ("FAIL", "XPASS", "NOTERM")


def good_log(rng):
    """a log robsd-regress-html can always copy: it ends in non-xtrace text"""
    body = gen_log(rng).replace(b"\0", b"")
    return body + (b"" if body.endswith(b"\n") or not body else b"\n") + b"==== final ====\n" + rng.choice([b"ok\n", b"FAILED\n", b"SKIPPED\n", b"EXPECTED_FAIL\n", b"UNEXPECTED_PASS\n", b"done\n", b"DISABLED\n"])


def gen_case(rng, tier, adversarial=None):
    narch = rng.choice([1, 1, 2, 3])
    arches = rng.sample(ARCHES, narch)
    total = rng.randint(1, 12) if tier == "quick" else rng.randint(1, 40)
    if adversarial in ("dup16", "many"):
        total = rng.choice([16, 16, 17, 32, 8])
    if adversarial == "sameday":
        # more than nine invocations of one architecture on one day: the directory names (.10 before .2
        # in strcmp order) no longer sort like the start times
        total = rng.choice([11, 12, 13])
        arches = arches[:1]
    pool = rng.sample(SUITES, rng.randint(2, len(SUITES)))
    base = 1666000000
    invs = []
    day = 0
    seq = {}
    t = base
    for k in range(total):
        arch = rng.choice(arches)
        if rng.random() < 0.6 and adversarial != "sameday":
            day += 1
        date0 = "2022-10-%02d" % (1 + day % 28) if day < 28 else "2022-11-%02d" % (1 + (day - 28) % 28)
        n = seq.get((arch, date0), 0) + 1
        seq[(arch, date0)] = n
        date = "%s.%d" % (date0, n)
        r = rng.random()
        if adversarial == "equal-times" or r < 0.15:
            pass                                    # same start second as the previous invocation
        else:
            t += rng.choice([1, 60, 3600, 86400])
        # suites of this invocation: appear / disappear over time, some missing
        present = [s for s in pool if rng.random() < 0.7]
        if adversarial == "sparse":
            present = [s for s in pool if rng.random() < 0.25]
        recs = []
        for s in present:
            ex = rng.choice([0, 0, 0, 0, 1, 2, EX_TIMEOUT])
            recs.append(dict(suite=s, exit=ex, logname="%s.log" % s.replace("/", "-").replace("..", "dd"), log=good_log(rng)))
        if recs and (adversarial == "dup16" or rng.random() < 0.06):
            d = dict(rng.choice(recs))
            d["logname"] = "second-" + d["logname"]
            d["exit"] = rng.choice([0, 1])
            d["log"] = good_log(rng)
            recs.insert(rng.randint(0, len(recs)), d)
        invs.append(dict(arch=arch, date=date, time=t, duration=rng.choice([30, 600, 3600, 7300, 90000]), recs=recs,
                         cvs=rng.random() < 0.5, patches=rng.choice([0, 0, 1, 3])))
    if adversarial == "clock":
        # start times that do not follow the directory names at all (a restored directory, a clock set back)
        ts = [i["time"] for i in invs]
        rng.shuffle(ts)
        for i, tt in zip(invs, ts):
            i["time"] = tt
    return dict(arches=arches, invs=invs)


def materialise(case, root):
    """robsd directories, one per architecture; returns the parse order (as the program walks them)"""
    shutil.rmtree(root, ignore_errors=True)
    os.makedirs(os.path.join(root, "out"))
    for a in case["arches"]:
        os.makedirs(os.path.join(root, a, "attic", "2020-01-01.1"))
    for inv in case["invs"]:
        d = os.path.join(root, inv["arch"], inv["date"])
        os.makedirs(d)
        rows = [b"1,env,0,1,0,env.log,root,%d,0\n" % inv["time"]]
        open(os.path.join(d, "env.log"), "wb").write(b"env\n")
        sid = 2
        for r in inv["recs"]:
            rows.append(b"%d,%s,%d,7,0,%s,root,%d,0\n" % (sid, r["suite"].encode(), r["exit"], r["logname"].encode(), inv["time"] + sid))
            open(os.path.join(d, r["logname"]), "wb").write(r["log"])
            sid += 1
        rows.append(b"%d,end,0,%d,0,,root,%d,0\n" % (sid, inv["duration"], inv["time"] + sid))
        open(os.path.join(d, "step.csv"), "wb").write(HEADER + b"".join(rows))
        open(os.path.join(d, "dmesg"), "w").write("dmesg of %s %s\n" % (inv["arch"], inv["date"]))
        open(os.path.join(d, "comment"), "w").write("comment %s\n" % inv["date"])
        open(os.path.join(d, "tags"), "w").write("cvs\n" if inv["cvs"] else "other\n")
        for i in range(inv["patches"]):
            open(os.path.join(d, "src.diff.%d" % (i + 1)), "w").write("patch %d\n" % i)
    order = []
    for a in case["arches"]:
        order += sorted([i for i in case["invs"] if i["arch"] == a], key=lambda i: os.path.join(root, a, i["date"]))
    return order


def parse_html(text):
    """index.html -> header rows and body rows; the writer puts one tag or text per line"""
    lines = [l.strip() for l in text.split("\n")]
    head = {}
    rows = []
    i = 0
    section = None
    cur = None
    while i < len(lines):
        l = lines[i]
        if l == "<thead>":
            section = "head"
        elif l == "<tbody>":
            section = "body"
        elif l == "<tr>":
            cur = []
        elif l == "</tr>":
            if section == "head" and cur:
                head[cur[0].get("text", "")] = cur[1:]
            elif section == "body":
                rows.append(cur)
            cur = None
        elif cur is not None and re.match(r"<t[hd]\b", l):
            m = re.match(r'<t[hd](?: class="([^"]*)")?>', l)
            c = dict(cls=m.group(1) if m else None)
            i += 1
            while i < len(lines) and not re.match(r"</t[hd]>", lines[i]):
                m = re.match(r'<a(?: class="([^"]*)")?(?: href="([^"]*)")?>', lines[i])
                if m:
                    c["acls"], c["href"] = m.group(1), m.group(2)
                elif lines[i] != "</a>" and lines[i]:
                    c["text"] = lines[i]
                i += 1
            cur.append(c)
        i += 1
    return head, rows


def tree(d):
    out = {}
    for dp, dn, fn in os.walk(d):
        for f in fn:
            p = os.path.join(dp, f)
            out[os.path.relpath(p, d)] = open(p, "rb").read()
    return out


def expected(order):
    """what the property demands, from the generated data alone: per invocation the first record of each suite"""
    suites = []
    per = []
    for inv in order:
        seen = {}
        for r in inv["recs"]:
            if r["suite"] not in seen:
                seen[r["suite"]] = dict(status=classify(r["exit"], r["log"]), link="%s/%s/%s" % (inv["arch"], inv["date"], r["logname"]), rec=r)
                if r["suite"] not in suites:
                    suites.append(r["suite"])
        per.append(seen)
    return suites, per


def run(ctx):
    ctx.translate(GENS)
    ctx.lake_build(MODULES)
    ctx.audit(MODULES)
    rng = ctx.rng
    d = ctx.build_repo("asan")
    exe = os.path.join(d, "robsd-regress-html")
    kinds = {}
    distinct = set()
    reqs, wants, infos = [], [], []
    n = ctx.n(40, 1500)
    for t in range(n):
        adv = [None, "equal-times", "sameday", "dup16", "sparse", "clock", "many", None][t % 8]
        case = gen_case(rng, ctx.tier, adv)
        root = os.path.join(ctx.scratch, "rh")
        order = materialise(case, root)
        before = {a: tree(os.path.join(root, a)) for a in case["arches"]}
        args = [exe, "-o", os.path.join(root, "out")] + ["%s:%s" % (a, os.path.join(root, a)) for a in case["arches"]]
        r = subprocess.run(args, capture_output=True, timeout=120, env=dict(os.environ, ASAN_OPTIONS="detect_leaks=0"))
        info = dict(case=dict(arches=case["arches"], invs=[dict(i, recs=[dict(x, log=x["log"].decode(errors="replace")) for x in i["recs"]]) for i in case["invs"]]),
                    argv=args[1:], rc=r.returncode, stderr=r.stderr.decode(errors="replace")[-800:], adversarial=adv)
        kinds[adv or "random"] = kinds.get(adv or "random", 0) + 1
        ndup = sum(1 for i in order if len(set(x["suite"] for x in i["recs"])) != len(i["recs"]))
        neq = len(order) - len(set(i["time"] for i in order))
        kinds["with-duplicate-suite"] = kinds.get("with-duplicate-suite", 0) + (1 if ndup else 0)
        kinds["with-equal-times"] = kinds.get("with-equal-times", 0) + (1 if neq else 0)
        distinct.add((len(order), ndup > 0, neq > 0, len(case["arches"])))
        rep = core.sanitizer_report(r.stderr)
        if rep:
            ctx.violation("robsd-regress-html: sanitizer report while rendering %d invocations (%d with a suite recorded twice, %d equal start times)" % (len(order), ndup, neq), info)
            continue
        if r.returncode != 0:
            ctx.violation("robsd-regress-html exits %d on well-formed invocation directories" % r.returncode, info)
            continue
        for a in case["arches"]:
            if tree(os.path.join(root, a)) != before[a]:
                ctx.violation("robsd-regress-html changed its input directory %s" % a, info)
        out = tree(os.path.join(root, "out"))
        head, rows = parse_html(out.get("index.html", b"").decode(errors="replace"))
        suites, per = expected(order)
        # ---- columns
        cols = []
        dates = head.get("date", [])
        archs = head.get("architecture", [])
        rates = head.get("pass rate", [])
        if not (len(dates) == len(archs) == len(rates) == len(order)):
            ctx.violation("%d invocations but %d date / %d architecture / %d pass rate columns" % (len(order), len(dates), len(archs), len(rates)), info)
            continue
        bad = False
        for dcell, acell in zip(dates, archs):
            m = [k for k, i in enumerate(order) if i["date"] == dcell.get("text") and i["arch"] == acell.get("text")]
            if len(m) != 1:
                bad = True
                break
            cols.append(m[0])
        if bad or sorted(cols) != list(range(len(order))):
            ctx.violation("the columns are not the invocations, one each: %s" % [(a.get("text"), b.get("text")) for a, b in zip(archs, dates)], info)
            continue
        times = [order[k]["time"] for k in cols]
        if any(x < y for x, y in zip(times, times[1:])):
            ctx.violation("columns are not in descending start-time order: %s" % times, info)
        for k, acell in zip(cols, archs):
            want = "%s/%s/dmesg" % (order[k]["arch"], order[k]["date"])
            if acell.get("href") != want or want not in out:
                ctx.violation("column %s/%s links dmesg %s (expected a copy at %s)" % (order[k]["arch"], order[k]["date"], acell.get("href"), want), info)
        # ---- pass rate
        for k, rc in zip(cols, rates):
            tot = len(per[k])
            fail = sum(1 for v in per[k].values() if v["status"] in FAILING)
            q = (100 * (tot - fail)) // tot if tot else 0
            shown = rc.get("text", "")
            if not re.fullmatch(r"\d+%", shown) or not (q - 1 <= int(shown[:-1]) <= q):
                ctx.violation("pass rate of %s/%s shown as %s; %d of %d suites did not fail (%d%%)" % (order[k]["arch"], order[k]["date"], shown, tot - fail, tot, q), info)
        # ---- rows
        names = [r0[0].get("text") for r0 in rows if r0]
        if sorted(names) != sorted(suites):
            ctx.violation("rows %s, suites that ran %s" % (names, suites), info)
            continue
        nfail = {s: sum(1 for p in per if s in p and p[s]["status"] in FAILING) for s in suites}
        want_rows = (sorted([s for s in suites if nfail[s] > 0], key=lambda s: (-nfail[s], s.encode())) +
                     sorted([s for s in suites if nfail[s] == 0 and not s.startswith("../")], key=lambda s: s.encode()) +
                     sorted([s for s in suites if nfail[s] == 0 and s.startswith("../")], key=lambda s: s.encode()))
        if names != want_rows:
            ctx.violation("row order %s, expected failing suites first: %s" % (names, want_rows), info)
        for r0 in rows:
            s = r0[0].get("text")
            cells = r0[1:]
            if len(cells) > len(cols):
                ctx.violation("row %s has %d cells for %d columns" % (s, len(cells), len(cols)), info)
                continue
            for ci, k in enumerate(cols):
                c = cells[ci] if ci < len(cells) else dict(cls=None)
                ran = per[k].get(s)
                where = "%s/%s" % (order[k]["arch"], order[k]["date"])
                if ran is None:
                    if c.get("cls") is not None or c.get("href"):
                        ctx.violation("suite %s did not run in %s but its cell shows %s -> %s" % (s, where, c.get("cls"), c.get("href")), info)
                    continue
                if c.get("cls") is None:
                    ctx.violation("suite %s ran in %s (%s) but its cell is empty" % (s, where, ran["status"]), info)
                elif c.get("cls") != ran["status"] or c.get("text") != ran["status"]:
                    ctx.violation("suite %s in %s: status %s shown, expected %s (exit %d)" % (s, where, c.get("cls"), ran["status"], ran["rec"]["exit"]), info)
                elif c.get("href") != ran["link"]:
                    ctx.violation("suite %s in %s links %s, its log is %s" % (s, where, c.get("href"), ran["link"]), info)
                elif ran["link"] not in out:
                    ctx.violation("suite %s in %s: no copy of the log at %s" % (s, where, ran["link"]), info)
                else:
                    src = set(c_lines(ran["rec"]["log"])) | {b""}
                    if any(l not in src for l in c_lines(out[ran["link"]])) or not out[ran["link"]]:
                        ctx.violation("the copy %s holds lines that are not in that run's log" % ran["link"], info)
        # ---- the model on the same data and the rendered column order
        toks = []
        for inv in order:
            recs = ";".join("%s,%d,%s,%s" % (hexb(x["suite"].encode()) or "-", x["exit"], hexb(x["logname"].encode()), hexb(x["log"]) or "-") for x in inv["recs"]) or "-"
            toks.append("%s:%s:%d:%d:%s" % (hexb(inv["arch"].encode()), hexb(inv["date"].encode()), inv["time"], inv["duration"], recs))
        reqs.append("rhtml %s %s" % (",".join(str(k) for k in cols), " ".join(toks)))
        wcols = ";".join("%d" % k for k in range(len(order)))
        wrows = []
        for r0 in rows:
            cs = ["-" if c.get("cls") is None else "%s,%s" % (c.get("cls"), hexb((c.get("href") or "").encode())) for c in r0[1:]]
            wrows.append("%s:%s" % (hexb((r0[0].get("text") or "").encode()), "|".join(cs)))
        wants.append((wcols, ";".join(wrows), [rc.get("text") for rc in rates], cols))
        infos.append(info)
    ans = ctx.model(reqs) if reqs else []
    for q, a, w, info in zip(reqs, ans, wants, infos):
        m = re.match(r"valid=(\d) cols=(\S*) rows=(\S*)$", a.strip())
        if not m:
            ctx.disagreement("RegressHtml model answer unreadable", dict(model=a[:300]))
            continue
        if m.group(1) != "1":
            ctx.disagreement("RegressHtml.validOrder rejects the rendered column order", dict(order=w[3], info=info))
        if m.group(3) != w[1]:
            mr, wr = m.group(3).split(";"), w[1].split(";")
            i = next((i for i in range(max(len(mr), len(wr))) if i >= len(mr) or i >= len(wr) or mr[i] != wr[i]), None)
            ctx.disagreement("RegressHtml rows vs index.html", dict(row=i, impl=wr[i] if i is not None and i < len(wr) else None,
                                                                     model=mr[i] if i is not None and i < len(mr) else None, info=info))
        # totals: the shown rate must be within the model's fail/total
        mc = {}
        for c in (m.group(2).split(";") if m.group(2) else []):
            k, tot, fail = (int(x) for x in c.split(","))
            mc[k] = (tot, fail)
        for ci, k in enumerate(w[3]):
            tot, fail = mc.get(k, (0, 0))
            qv = (100 * (tot - fail)) // tot if tot else 0
            shown = w[2][ci] or "x%"
            if not shown[:-1].isdigit() or not (qv - 1 <= int(shown[:-1]) <= qv):
                ctx.disagreement("RegressHtml totals vs shown pass rate", dict(col=k, model=(tot, fail), shown=shown, info=info))
    ctx.cov.update(dict(
        evaluations=n, distinct_nontrivial=len(distinct),
        rule="generated robsd directories for 1-3 architectures, 1-40 invocations (several per day, equal start seconds within and across architectures, suites "
             "appearing/disappearing, sparse runs, a suite recorded twice, 16/17/32 invocations), logs from the C13 generator; the real robsd-regress-html (ASan+UBSan) "
             "renders them; index.html is parsed back into columns/rows/cells and checked against the property from the generated data alone, then against "
             "RegressHtml.parseAll/sortSuites/row on the same data; non-trivial = distinct (invocation count, duplicate, equal times, arch count)",
        samples=[dict(request=q[:200]) for q in reqs[:2]],
        traces_validated_against_impl=len(reqs), outcome_kinds=kinds))
    ctx.trusted += ["the line-oriented parser of index.html (html.c writes one tag or text per line)"]
    ctx.assumptions += ["the float expression of the pass rate is checked against its integer bounds only",
                        "HTML escaping of names is not part of the model (suite names are plain path components)"]
