"""C10: the step schedule is complete, ordered and agrees with what can be executed."""
import os
import re
import shutil

from .. import core
from ..core import hexb
from .. import reportgen

MODULES = ["Robsd.Props.C10"]
GENS = ["Steps"]
TESTS = ["bin/ksh", "bin/sh", "lib/libc", "lib/libcrypto", "lib/libc/sys", "sys/kern", "sys/kern/", "usr.bin/ssh", "../ext/t", "a b", "x"]


def run(ctx):
    ctx.translate(GENS)
    ctx.lake_build(MODULES)
    ctx.audit(MODULES)
    rng = ctx.rng
    d = ctx.build_repo("asan")
    rr = reportgen.ReportRunner(ctx, d)
    root = os.path.join(ctx.scratch, "c10")
    shutil.rmtree(root, ignore_errors=True)
    os.makedirs(root)
    stubs = os.path.join(root, "exec")
    os.makedirs(stubs)
    for fn in os.listdir(d):
        if fn.endswith(".sh"):
            with open(os.path.join(stubs, fn), "w") as f:
                f.write('echo "stub %s $1"\nexit 0\n' % fn)
    # how the orchestrator hands a step name to the runner (util.sh step_exec): with or without `--`
    m = re.search(r'"\$\{ROBSDEXEC\}"[^\n]*\\\n\s*\$\{_trace:\+-x\}\s+(--\s+)?"\$\{_step\}"', open(os.path.join(d, "util.sh")).read())
    if m is None:
        ctx.disagreement("util.sh step_exec no longer invokes robsd-exec the way the check mirrors it", dict(expected='"${ROBSDEXEC}" -m MODE -C CONF ${_trace:+-x} [--] "${_step}"'))
    dashdash = ["--"] if m is not None and m.group(1) else []
    reqs, obs = [], []
    kinds = {}
    distinct = set()
    n = ctx.n(120, 3000)
    for t in range(n):
        mode = ["robsd-regress", "canvas", "robsd-regress", "canvas", "robsd", "robsd-cross", "robsd-ports"][t % 7]
        base = {"robsd": 'robsddir "%s"\ndestdir "%s"\nbsd-srcdir "%s"\ncvs-root "x:/cvs"\ncvs-user "nobody"\nx11-srcdir "%s"\n' % (root, root, root, root),
                "robsd-cross": 'robsddir "%s"\ncrossdir "%s"\nbsd-srcdir "%s"\n' % (root, root, root),
                "robsd-ports": 'robsddir "%s"\nchroot "%s"\ncvs-root "x:/cvs"\ncvs-user "nobody"\nports-dir "/ports"\nports-user "nobody"\nports { "devel/robsd" }\n' % (root, root),
                "robsd-regress": 'robsddir "%s"\nbsd-srcdir "%s"\ncvs-user "nobody"\n' % (root, root),
                "canvas": 'canvas-name "c"\ncanvas-dir "%s"\n' % root}[mode]
        items = []
        par = True
        if mode == "robsd-regress":
            k = rng.choice([1, 2, 3, 5, 6, 7, 8, 12, 16, 17, 20, 33, 40])
            if rng.random() < 0.3:
                par = False
                base += "parallel no\n"
            for _ in range(k):
                nm = rng.choice(TESTS) if rng.random() < 0.8 else "t%d" % rng.randint(0, 99)
                if rng.random() < 0.08:
                    nm = rng.choice(["1", "2", "3", "9", "02", "12", str(rng.randint(1, k + 12))])     # a test directory that is a number
                npar = rng.random() < 0.4
                opts = []
                if npar:
                    opts.append("no-parallel")
                if rng.random() < 0.2:
                    opts.append("quiet")
                if rng.random() < 0.15:
                    opts.append("root")
                rng.shuffle(opts)
                base += 'regress "%s" %s\n' % (nm, " ".join(opts))
                items.append((nm, npar))
        elif mode == "canvas":
            k = rng.choice([1, 2, 3, 7, 15, 16, 17, 31, 32, 33, 40])
            for i in range(k):
                nm = "s%d" % i if rng.random() < 0.85 else rng.choice(["dup", "end", "a/b", "1", "2", "3", "02", str(rng.randint(1, k + 2)), "-1", "0"])
                p = rng.random() < 0.4
                base += 'step "%s" command { "echo" "ran" "%d" }%s\n' % (nm, i, " parallel" if p else "")
                items.append((nm, p))
        conf = os.path.join(root, "t.conf")
        with open(conf, "w") as f:
            f.write(base)
        nsteps_guess = {"robsd": 17, "robsd-cross": 6, "robsd-ports": 10}.get(mode, len(items) + (12 if mode == "robsd-regress" else 1))
        offset = rng.choice([None, None, 1, 2, nsteps_guess, nsteps_guess + 1, nsteps_guess - 1, rng.randint(1, max(1, nsteps_guess))])
        argv = [os.path.join(d, "robsd-step"), "-L", "-m", mode, "-C", conf] + (["-o", str(offset)] if offset is not None else [])
        rc, out, err = core.run_cmd(argv, env=dict(os.environ, ASAN_OPTIONS="detect_leaks=0"))
        rep = core.sanitizer_report(err)
        if rep or rc not in (0, 1):
            ctx.violation("robsd-step -L: abnormal termination (rc=%s)" % rc,
                          dict(cmd="robsd-step -L -m %s -C CONF%s" % (mode, "" if offset is None else " -o %d" % offset), conf=base, rc=rc,
                               report=rep or err.decode(errors="replace")[-400:]))
            continue
        lines = []
        for l in out.decode().split("\n"):
            if not l:
                continue
            num, rest = l.split(" ", 1)
            p = rest.endswith(" parallel")
            nm = rest[:-9] if p else rest
            lines.append((int(num), nm, p))
        got = "fail" if rc != 0 else "ok " + ",".join("%d:%s:%d" % (a, hexb(b.encode()), 1 if c else 0) for a, b, c in lines)
        reqs.append("sched %s %d %d %s" % (mode, 1 if par else 0, 1 if offset is None else offset,
                                           ",".join("%s:%d" % (hexb(a.encode()), 1 if b else 0) for a, b in items) or "."))
        obs.append((got, base))
        kinds["%s-rc%d" % (mode, rc)] = kinds.get("%s-rc%d" % (mode, rc), 0) + 1
        if rc != 0:
            continue
        # ---- oracle: the property on the real output
        start = 1 if offset is None else offset
        if [x[0] for x in lines] != list(range(start, start + len(lines))):
            ctx.violation("steps are not numbered consecutively from the offset", dict(conf=base, offset=offset, numbers=[x[0] for x in lines]))
        if lines[-1][1] != "end":
            ctx.violation("the schedule does not end with 'end'", dict(conf=base, last=lines[-1]))
        if offset is None and mode == "robsd-regress":
            names = [x[1] for x in lines]
            lo, hi = names.index("mount") + 1, names.index("umount")
            block = lines[lo:hi]
            flagged = set(nm for nm, npar in items if npar)
            want_par = [nm for nm, npar in items if par and nm not in flagged]
            want_seq = [nm for nm, npar in items if not (par and nm not in flagged)]
            if [x[1] for x in block if x[2]] != want_par or [x[1] for x in block if not x[2]] != want_seq or \
               [x[2] for x in block] != sorted([x[2] for x in block], reverse=True):
                ctx.violation("regress block is not 'parallel tests in configuration order, then the others in configuration order'",
                              dict(conf=base, block=block, want_parallel=want_par, want_sequential=want_seq))
            distinct.add(tuple(items) + (par,))
        if offset is None and mode == "canvas":
            if [(x[1], x[2]) for x in lines] != items + [("end", False)]:
                ctx.violation("canvas schedule differs from the configured steps + end", dict(conf=base, lines=lines))
            distinct.add(tuple(items))
        # every listed name is resolvable by the step runner
        # ... and resolves to that step's own command (sampled; names that look like numbers always)
        if offset is None:
            configured = [x[0] for x in items]
            picked = lines[:: max(1, len(lines) // 6)] if t % 5 == 0 else []
            picked = picked + [x for x in lines if x not in picked and x[1] in configured and x[1].lstrip("-").isdigit()][:4]
            for (_, nm, _) in picked:
                if mode == "canvas" and nm == "end" and "end" in configured:
                    continue
                rc2, out2, err2 = core.run_cmd([os.path.join(d, "robsd-exec"), "-m", mode, "-C", conf] + dashdash + [nm],
                                               env=dict(os.environ, EXECDIR=stubs, ASAN_OPTIONS="detect_leaks=0"))
                if rc2 != 0:
                    ctx.violation("listed step '%s' cannot be resolved/executed by robsd-exec (rc=%s)" % (nm, rc2),
                                  dict(conf=base, step=nm, cmd="robsd-exec -m %s -C CONF %s%s   (as util.sh step_exec invokes it)" % (mode, "-- " if dashdash else "", nm),
                                       stderr=err2.decode(errors="replace")[-300:]))
                    break
                if nm == "end" and nm not in configured:
                    continue        # the fixed end step has no command of its own (/dev/null)
                ran = out2.decode(errors="replace").strip()
                if nm in configured and mode == "canvas":
                    ok = ran in ["ran %d" % i for i, x in enumerate(configured) if x == nm]
                elif nm in configured:
                    ok = ran.startswith("stub robsd-regress-exec.sh ") and ran[len("stub robsd-regress-exec.sh "):].rstrip("/") == nm.rstrip("/")
                else:
                    w = ran.split(" ")
                    ok = len(w) >= 2 and w[0] == "stub" and nm in w[1]
                kinds["resolved-own-command"] = kinds.get("resolved-own-command", 0) + 1
                if not ok:
                    ctx.violation("robsd-exec resolves the listed step '%s' to another step's command: it ran %r" % (nm, ran[:200]),
                                  dict(conf=base, step=nm, stdout=ran[:300], cmd="robsd-exec -m %s -C CONF %s" % (mode, nm)))
                    break
    # ---- canvas configurations one of whose commands cannot be interpolated (unknown variable, ${builddir}
    # without a running invocation): whatever -L lists must be resolvable by the runner (listing nothing is fine)
    for t in range(ctx.n(8, 120)):
        k = rng.randint(1, 6)
        bad = rng.randrange(k)
        badarg = rng.choice(["${nope}", "${builddir}/x", "pre-${no-such}-post", "${step-name}"])
        base = 'canvas-name "c"\ncanvas-dir "%s"\n' % root
        for i in range(k):
            base += 'step "u%d" command { "echo" "%s" }%s\n' % (i, badarg if i == bad else "fine", " parallel" if rng.random() < 0.3 else "")
        conf = os.path.join(root, "u.conf")
        with open(conf, "w") as f:
            f.write(base)
        rc, out, err = core.run_cmd([os.path.join(d, "robsd-step"), "-L", "-m", "canvas", "-C", conf], env=dict(os.environ, ASAN_OPTIONS="detect_leaks=0"))
        rep = core.sanitizer_report(err)
        if rep or rc not in (0, 1):
            ctx.violation("robsd-step -L: abnormal termination (rc=%s)" % rc, dict(conf=base, rc=rc, report=rep or err.decode(errors="replace")[-300:]))
            continue
        kinds["canvas-uninterpolatable-rc%d" % rc] = kinds.get("canvas-uninterpolatable-rc%d" % rc, 0) + 1
        if rc != 0 and out:
            ctx.violation("robsd-step -L failed but listed steps", dict(conf=base, stdout=out.decode(errors="replace")[:300]))
        for l in out.decode().split("\n"):
            if not l:
                continue
            nm = l.split(" ", 1)[1]
            nm = nm[:-9] if nm.endswith(" parallel") else nm
            if nm == "u%d" % bad:
                continue     # this one's own command is the broken one
            rc2, out2, err2 = core.run_cmd([os.path.join(d, "robsd-exec"), "-m", "canvas", "-C", conf, nm],
                                           env=dict(os.environ, EXECDIR=stubs, ASAN_OPTIONS="detect_leaks=0"))
            if rc2 != 0 and b"not found" in err2:
                ctx.violation("robsd-step -L lists step '%s' but robsd-exec cannot resolve it" % nm, dict(conf=base, rc=rc2, stderr=err2.decode(errors="replace")[-300:]))
                break
    ans = ctx.model(reqs) if reqs else []
    for q, a, (want, conf) in zip(reqs, ans, obs):
        if a != want:
            ctx.disagreement("Schedule model vs robsd-step -L", dict(request=q[:300], impl=want[:600], model=a[:600], conf=conf[:800]))
    ctx.cov.update(dict(
        evaluations=len(reqs), distinct_nontrivial=len(distinct),
        rule="regress lists of 1-40 entries (duplicates, names that are prefixes of each other, trailing slash, no-parallel/quiet/root mix, global `parallel no`), "
             "canvas lists of 1-40 steps (sizes around 16/32, duplicate names, a step called end, parallel flags), the three fixed modes; offsets absent, 1, 2, n-1, n, n+1, random; "
             "non-trivial = distinct regress/canvas list; stdout compared with the model; numbering, end, block order and resolvability by robsd-exec checked on the real output",
        samples=[dict(request=q[:200], impl=w[:200]) for q, (w, _) in list(zip(reqs, obs))[:: max(1, len(reqs) // 4)][:4]],
        traces_validated_against_impl=len(reqs), outcome_kinds=kinds))
