"""C04: steps run in configured order behind barriers and stop at the first failure."""
import os

from .. import core
from ..canvasrun import CanvasRunner, gen_config

MODULES = ["Robsd.Props.C04", "Robsd.Props.C04Wait", "Robsd.Props.C04Kill"]
GENS = []


def analyse(ctx, cfg, res, what="canvas -d"):
    """the property, evaluated directly on the probes' real start/end times"""
    ids = {s[0]: i + 1 for i, s in enumerate(cfg["steps"])}
    par = {s[0]: s[1] for s in cfg["steps"]}
    exits = {s[0]: s[3] for s in cfg["steps"]}
    ev = res["events"]
    info = dict(cfg=cfg, events=[(a, b, c) for a, b, c, _ in ev], rc=res["rc"], rows=res["rows"], stderr=res["stderr"][-300:])
    running = set()
    finished = set()
    started = []
    sync_failed = False
    for kind, name, t, _ in ev:
        if kind == "hook":
            if name == "end" and running:
                ctx.violation("%s: the invocation reached its end (end hook ran) while %s had not finished" % (what, sorted(running)), info)
            continue
        if kind == "start":
            if name in cfg["skip"]:
                ctx.violation("%s: skipped step %s ran" % (what, name), info)
            if sync_failed:
                ctx.violation("%s: step %s started after a synchronous step had failed" % (what, name), info)
            if not par[name] and running:
                ctx.violation("%s: synchronous step %s started while %s still running" % (what, name, sorted(running)), info)
            if par[name] and any(not par[r] for r in running):
                ctx.violation("%s: parallel step %s started while a synchronous step was running" % (what, name), info)
            running.add(name)
            started.append(name)
            if len(running) > max(1, cfg["ncpu"]):
                ctx.violation("%s: %d steps running at once with ncpu=%d" % (what, len(running), cfg["ncpu"]), info)
        else:
            running.discard(name)
            finished.add(name)
            if not par[name] and exits[name] != 0:
                sync_failed = True
    order = [s[0] for s in cfg["steps"] if s[0] not in cfg["skip"]]
    # configuration order, except that two parallel steps launched back to back stamp their own
    # start in either order (the probes write the stamps, not the orchestrator)
    pos = {n: i for i, n in enumerate(order)}
    for i, a in enumerate(started):
        for b in started[i + 1:]:
            if a in pos and b in pos and pos[a] > pos[b] and not (par[a] and par[b]):
                ctx.violation("%s: step %s started before step %s, which the configuration lists first: %s" % (what, a, b, started), info)
                break
        else:
            continue
        break
    # expected outcome: runs up to and including the first failing synchronous step
    expect = []
    ok = True
    for n in order:
        expect.append(n)
        if not par[n] and exits[n] != 0:
            ok = False
            break
    if sorted(started) != sorted(expect):
        ctx.violation("%s: started %s, expected %s" % (what, started, expect), info)
    has_end = any(r["name"] == "end" for r in res["rows"])
    if has_end and running:
        ctx.violation("%s: end was recorded and the invocation returned while %s had not finished" % (what, sorted(running)), info)
    if (not res.get("detached") and ok != (res["rc"] == 0)) or ok != has_end:
        ctx.violation("%s: exit status %s / end recorded %s, but all synchronous steps %s" % (what, res["rc"], has_end, "succeeded" if ok else "did not succeed"), info)
    return ids, par, ok, started


def to_trace(cfg, res, ids, par):
    evs = []
    for kind, name, t, extra in res["events"]:
        if kind == "hook":
            if name == "end":
                evs.append("E:%d" % (len(cfg["steps"]) + 1))
            continue
        if kind == "start":
            evs.append("S:%d:%d" % (ids[name], 0 if par[name] else 1))
        else:
            evs.append("F:%d:%s" % (ids[name], extra.split("=")[1]))
    return evs


def run(ctx):
    ctx.translate(GENS)
    ctx.lake_build(MODULES)
    ctx.audit(MODULES)
    rng = ctx.rng
    d = ctx.build_repo("plain")
    cr = CanvasRunner(ctx, d)
    reqs, wants, infos = [], [], []
    kinds = {}
    distinct = set()
    n = ctx.n(18, 500)
    for t in range(n):
        adv = [None, "long-parallel", "all-at-once", "trailing-parallel", "queue-full", None][t % 6]
        cfg = gen_config(rng, adv)
        # every third configuration runs detached (canvas without -d): the launcher's exit status says nothing then
        detach = (t % 3 == 2)
        res = cr.run(cfg, detach=detach)
        res["detached"] = detach
        ids, par, ok, started = analyse(ctx, cfg, res)
        skipidx = [ids[s] for s in cfg["skip"]]
        reqs.append("orchp accepts %d %s %s" % (cfg["ncpu"], ",".join(map(str, skipidx)) or "-", ",".join(to_trace(cfg, res, ids, par)) or "."))
        wants.append("accept")
        infos.append(dict(cfg=cfg, events=[(a, b) for a, b, _, _ in res["events"]]))
        steps = ",".join("%d:%d:0" % (ids[s[0]], 1 if s[1] else 0) for s in cfg["steps"]) + ",%d:0:1" % (len(cfg["steps"]) + 1)
        exits = ",".join(["0"] + [str(s[3]) for s in cfg["steps"]] + ["0"])
        reqs.append("orchp result %d %s %s %s" % (cfg["ncpu"], ",".join(map(str, skipidx)) or "-", exits, steps))
        wants.append("%s %s %s" % ("ok" if (ok if detach else res["rc"] == 0) else "fail", "end" if any(r["name"] == "end" for r in res["rows"]) else "noend",
                                   ",".join(str(x) for x in sorted(ids[s] for s in started))))
        infos.append(dict(cfg=cfg, rc=res["rc"]))
        kinds[adv or "random"] = kinds.get(adv or "random", 0) + 1
        if any(s[1] for s in cfg["steps"]) and len(started) >= 2:
            distinct.add((tuple(cfg["steps"]), tuple(cfg["skip"]), cfg["ncpu"]))
    # ---- resumed invocations (canvas -r): the loop runs on the schedule listed from the resume point, the same
    # order, barriers and stop-at-failure hold there; configurations that begin with parallel steps
    import os
    for t in range(ctx.n(2, 40)):
        npar = [2, 3, 1][t % 3] if t < 3 else rng.randint(1, 3)
        first = [("p%d" % (i + 1), True, rng.choice([0, 100]), 0) for i in range(npar)]
        failing = ("build", False, 50, rng.choice([1, 3]))
        tail = [("check", False, rng.choice([300, 600]), 0 if t % 2 == 0 else 2), ("pack", rng.random() < 0.5, 100, 0), ("last", False, 0, 0)]
        # a step behind the resume point is skipped (by the configuration, or with -s when the invocation began)
        sk = [["pack"], ["check"], []][t % 3]
        cfg1 = dict(steps=first + [failing] + tail, skip=sk, cmdline_skip=sk if t % 2 else [], ncpu=2)
        r1 = cr.run(cfg1)
        analyse(ctx, cfg1, dict(r1, detached=False), "canvas -d (to be resumed)")
        if not r1["builddir"]:
            continue
        for f in ("probe.log", "hook.log", "mail.log"):
            if os.path.exists(os.path.join(r1["root"], f)):
                os.unlink(os.path.join(r1["root"], f))
        # the failing step now takes its time and succeeds; the step after it would overtake it if it were
        # not waited for
        cfg2 = dict(cfg1, steps=first + [("build", False, 500, 0)] + tail)
        r2 = cr.run(cfg2, resume_dir=r1["builddir"], root=r1["root"], keep_root=True)
        view = dict(cfg2, steps=cfg2["steps"][npar:])
        analyse(ctx, view, dict(r2, detached=False), "canvas -d -r (resumed at the step that failed)")
        kinds["resumed"] = kinds.get("resumed", 0) + 1
    # ---- robsd-wait itself (the real source with the kqueue shim) on real child processes
    import subprocess
    import time
    nwait = 0
    for t in range(ctx.n(6, 60)):
        k = rng.randint(1, 4)
        durs = rng.sample([0.15, 0.4, 0.65, 0.9, 1.15], k)
        kids = [subprocess.Popen(["sleep", str(x)]) for x in durs]
        order = list(range(k))
        rng.shuffle(order)
        allflag = rng.random() < 0.5
        args = [str(kids[i].pid) for i in order]
        t0 = time.time()
        r = subprocess.run([cr.wait] + (["-a"] if allflag else []) + args, capture_output=True, timeout=30)
        el = time.time() - t0
        got = [int(x) for x in r.stdout.decode().split()]
        by_exit = [kids[i].pid for i in sorted(range(k), key=lambda i: durs[i])]
        for kd in kids:
            kd.wait()
        info = dict(argv=["robsd-wait"] + (["-a"] if allflag else []) + ["<pid of sleep %s>" % durs[i] for i in order], printed=got, rc=r.returncode, elapsed=round(el, 2),
                    stderr=r.stderr.decode(errors="replace")[-200:])
        if allflag:
            if r.returncode != 0 or got or el < max(durs) - 0.08:
                ctx.violation("robsd-wait -a returned after %.2f s printing %s while the longest process runs %.2f s" % (el, got, max(durs)), info)
        else:
            want = [int(a) for a in args if int(a) != by_exit[0]]
            if r.returncode != 0 or got != want or el > min(durs) + 0.2:
                ctx.violation("robsd-wait returned after %.2f s printing %s; the first exit is after %.2f s and leaves %s" % (el, got, min(durs), want), info)
        reqs.append("wait %d %s %s" % (1 if allflag else 0, ",".join(a.encode().hex() for a in args), "|".join(str(p_) for p_ in by_exit)))
        wants.append("%d %s" % (r.returncode, ",".join(map(str, got)) or "-"))
        infos.append(info)
        nwait += 1
    # many pids, most of which are gone already (reported by the kernel as ESRCH entries, one per pid)
    for t in range(ctx.n(2, 8)):
        ngone, nlive = rng.choice([(18, 2), (17, 1), (30, 3), (5, 1)]) if t else (18, 2)
        gone = []
        for _ in range(ngone):
            pz = subprocess.Popen(["true"])
            pz.wait()
            gone.append(pz.pid)
        durs = rng.sample([0.3, 0.6, 0.9], nlive)
        live = [subprocess.Popen(["sleep", str(x)]) for x in durs]
        args = [str(x) for x in gone] + [str(kd.pid) for kd in live]
        rng.shuffle(args)
        allflag = (t % 2 == 1)
        r = subprocess.run([cr.wait] + (["-a"] if allflag else []) + args, capture_output=True, timeout=30)
        got = [int(x) for x in r.stdout.decode().split()]
        for kd in live:
            kd.wait()
        want = [] if allflag else [int(a) for a in args if int(a) in [kd.pid for kd in live]]
        info = dict(argv="robsd-wait%s <%d pids of processes that are gone> <%d pids of sleep>" % (" -a" if allflag else "", ngone, nlive), printed=got, rc=r.returncode,
                    stderr=r.stderr.decode(errors="replace")[-200:])
        if r.returncode != 0 or got != want:
            ctx.violation("robsd-wait with %d pids that are gone and %d running: exit %d, printed %s, still running %s" % (ngone, nlive, r.returncode, got, want), info)
        by_exit = [kd.pid for kd in sorted(live, key=lambda kd: durs[live.index(kd)])]
        reqs.append("wait %d %s %s" % (1 if allflag else 0, ",".join(a.encode().hex() for a in args), "|".join([";".join(str(x) for x in gone)] + [str(x) for x in by_exit])))
        wants.append("%d %s" % (r.returncode, ",".join(map(str, got)) or "-"))
        infos.append(info)
        nwait += 1
    for bad in (["0"], ["abc"], ["-1"], ["99999999999"], ["12", "1x"], [" 7x"]):
        r = subprocess.run([cr.wait] + bad, capture_output=True, timeout=10)
        reqs.append("wait 0 %s 1" % ",".join(a.encode().hex() for a in bad))
        wants.append("%d %s" % (r.returncode, ",".join(r.stdout.decode().split()) or "-"))
        infos.append(dict(argv=["robsd-wait"] + bad, rc=r.returncode, stderr=r.stderr.decode(errors="replace")[-200:]))
    kinds["robsd-wait"] = nwait
    ans = ctx.model(reqs) if reqs else []
    for q, a, w, info in zip(reqs, ans, wants, infos):
        if q.startswith("wait ") and a.strip() != w.strip():
            ctx.disagreement("Wait.run vs robsd-wait.c (kqueue shim)", dict(request=q, impl=w, model=a, info=info))
            continue
        if q.startswith("orchp result"):
            # which steps ran is compared as a set: two parallel steps launched back to back stamp
            # their own start in either order (the order constraints are what `orchp accepts` checks)
            f = a.strip().split(" ")
            if len(f) == 3:
                a = " ".join(f[:2] + [",".join(str(x) for x in sorted(int(y) for y in f[2].split(",") if y))])
        if a.strip() != w.strip():
            ctx.disagreement("Orch model vs real canvas (%s)" % q.split()[1], dict(request=q[:400], impl=w, model=a, info=info))
    ctx.cov.update(dict(
        evaluations=n, distinct_nontrivial=len(distinct),
        rule="canvas configurations of 2-8 steps (synchronous/parallel mix, exit codes, skip set from configuration and command line, sleeps 0-600 ms), "
             "ROBSD_VERIF_NCPU in {1,2,3}, plus adversarial timings (a parallel step outliving later steps, all parallel steps finishing together, parallel steps "
             "right before end); real canvas -d under bash with the real robsd-exec/robsd-step/robsd-wait (kqueue shim); non-trivial = distinct configuration with a "
             "parallel step and >= 2 started steps; the probes' start/end order is checked against the property directly and given to Orch.accepts; exit status, "
             "end record and started steps compared with Orch.run",
        samples=[dict(cfg=i.get("cfg"), events=i.get("events")) for i in infos[:: max(1, len(infos) // 3)][:3]],
        traces_validated_against_impl=len(reqs), outcome_kinds=kinds))
    ctx.assumptions += ["the quantifier over ALL completion timings is discharged on the model (run_accepted); the real orchestrator is sampled",
                        "pid reuse inside robsd-wait is not modelled"]
