"""C13: regress log extraction is sound, complete and agrees with its exit status."""
import os
import subprocess

from .. import core
from ..core import hexb

MODULES = ["Robsd.Props.C13"]
GENS = []

MARKERS = [b"==== t1 ====", b"==== run-regress-a b ====", b"===> sub/dir", b"==== x ===", b"====x ====", b"==== ====", b"====  ====",
           b"==== a =====", b"===>", b"==== a ==== ", b" ==== a ====", b"==== = ====", b"==== a =b ====",
           # test and directory names that contain an outcome keyword: the marker line itself matches
           b"==== t-login-FAILED-password ====", b"===> regress/UNEXPECTED_PASS", b"==== DISABLED ====", b"==== SKIPPED-tests ====",
           b"===> EXPECTED_FAIL/sub", b"==== FAILED ===="]
OUTCOMES = [b"FAILED", b"SKIPPED", b"DISABLED", b"EXPECTED_FAIL", b"UNEXPECTED_PASS", b"test FAILED here", b"*** Error 1 (FAILED)",
            b"Regress: SKIPPED", b"XFAIL EXPECTED_FAIL UNEXPECTED_PASS", b"FAILE", b"failed", b"UNEXPECTED_PAS", b"DISABLED SKIPPED FAILED"]
TRACE = [b"+ cd /usr/src/regress", b"+ make FAILED", b"+", b"+ echo SKIPPED", b"++ nested"]
PLAIN = [b"", b"ok", b"cc -o t t.c", b"  indented", b"PASS", b"=== not a marker", b"x + y", b"\tTAB"]


def gen_log(rng):
    lines = []
    for _ in range(rng.randint(0, 3) if rng.random() < 0.6 else 0):
        lines.append(rng.choice(TRACE))
    for _ in range(rng.randint(0, 14)):
        k = rng.random()
        if k < 0.25:
            lines.append(rng.choice(MARKERS))
        elif k < 0.5:
            lines.append(rng.choice(OUTCOMES))
        elif k < 0.62:
            lines.append(rng.choice(TRACE))
        elif k < 0.66:
            lines.append(rng.choice(PLAIN) + b"\0after-nul FAILED")
        elif k < 0.72:
            # long lines (compiler and linker command lines): around and beyond the line buffer's 1 KiB, with or without a keyword at the end
            n = rng.choice([1000, 1022, 1023, 1024, 1025, 1500, 2047, 2048, 5000])
            lines.append(b"cc -o t " + b"x" * n + (b" " + rng.choice(OUTCOMES) if rng.random() < 0.6 else b""))
        else:
            lines.append(rng.choice(PLAIN))
    content = b"\n".join(lines)
    if lines and rng.random() < 0.8:
        content += b"\n"
    return content


def c_lines(content):
    """reference reimplementation of buffer_getline + C-string view, for the oracle"""
    if not content:
        return []
    parts = content.split(b"\n")
    if content.endswith(b"\n"):
        parts = parts[:-1]
    return [p.split(b"\0")[0] for p in parts]


def kw(flags):
    k = []
    if flags & 1:
        k += [b"FAILED"]
    if flags & 2:
        k += [b"SKIPPED", b"DISABLED"]
    if flags & 4:
        k += [b"EXPECTED_FAIL"]
    if flags & 8:
        k += [b"UNEXPECTED_PASS"]
    return k


def oracle_exit(content, flags):
    ls = c_lines(content)
    i = 0
    while i < len(ls) and ls[i].startswith(b"+"):
        i += 1
    return 0 if any(any(k in l for k in kw(flags)) for l in ls[i:]) else 1


def is_subsequence(xs, ys):
    it = iter(ys)
    return all(any(x == y for y in it) for x in xs)


def run(ctx):
    ctx.translate(GENS)
    ctx.lake_build(MODULES)
    ctx.audit(MODULES)
    rng = ctx.rng
    exe = ctx.cc_harness("rlog_harness", ["rlog_harness.c"], extra=["-I" + os.path.join(core.VERIF, "harness")],
                         repo_objs=["regress-log.c", "libks/buffer.c", "libks/consistency.c"])
    reqs = []
    for _ in range(ctx.n(2500, 120000)):
        c = gen_log(rng)
        flags = rng.randint(1, 15)
        k = rng.random()
        if k < 0.6:
            reqs.append("parse %d %s" % (flags | (16 if rng.random() < 0.2 else 0), hexb(c)))
        elif k < 0.85:
            reqs.append("peek %d %s" % (flags, hexb(c)))
        else:
            reqs.append("trim %s" % hexb(c))
    r = subprocess.run([exe], input=("\n".join(reqs) + "\n").encode(), capture_output=True, timeout=1800)
    impl = r.stdout.decode().split("\n")[:-1]
    rep = core.sanitizer_report(r.stderr)
    if rep or len(impl) != len(reqs):
        ctx.violation("regress-log.c in-process: sanitizer report or abnormal termination",
                      dict(stdin_line=reqs[len(impl)] if len(impl) < len(reqs) else None, report=rep, rc=r.returncode))
        reqs = reqs[:len(impl)]
    mreqs = []
    for q in reqs:
        w = q.split()
        if w[0] == "parse":
            f = int(w[1])
            mreqs.append("rlog parse %d %d %s" % (f & 15, 1 if f & 16 else 0, w[2]))
        elif w[0] == "peek":
            mreqs.append("rlog peek %s %s" % (w[1], w[2]))
        else:
            mreqs.append("rlog trim %s" % w[1])
    model = ctx.model(mreqs)
    kinds = {}
    distinct = set()
    for q, i, m in zip(reqs, impl, model):
        w = q.split()
        kinds[w[0]] = kinds.get(w[0], 0) + 1
        if i != m:
            ctx.disagreement("RegressLog model vs regress-log.c (%s)" % w[0], dict(case=q, impl=i, model=m))
        content = bytes.fromhex(w[-1]) if w[-1] != "-" else b""
        if w[0] in ("parse", "peek"):
            flags = int(w[1]) & 15
            n = int(i.split()[0])
            want = oracle_exit(content, flags)
            if (0 if n > 0 else 1) != want:
                ctx.violation("regress_log_%s: nfound=%d but %s" % (w[0], n, "a selected line exists" if want == 0 else "no selected line exists"),
                              dict(harness="harness/rlog_harness.c", stdin_line=q, observed=i))
            if n > 0:
                distinct.add(q)
            if w[0] == "parse":
                out = bytes.fromhex(i.split()[1]) if i.split()[1] != "-" else b""
                outl = [l for l in out.split(b"\n")[:-1] if True]
                # separators are empty lines the code inserts between blocks; remove inserted ones by subsequence test on non-empty lines
                src = c_lines(content)
                if not is_subsequence([l for l in outl if l != b""], src):
                    ctx.violation("regress_log_parse output is not a subsequence of the log's lines", dict(stdin_line=q, observed=i))
                i0 = 0
                while i0 < len(src) and src[i0].startswith(b"+"):
                    i0 += 1
                for l in src[i0:]:
                    if any(k in l for k in kw(flags)) and l not in outl:
                        ctx.violation("regress_log_parse output misses a selected line", dict(stdin_line=q, missing=l.hex(), observed=i))
                        break
    # -- CLI
    d = ctx.build_repo("asan")
    tmp = os.path.join(ctx.scratch, "c13files")
    os.makedirs(tmp, exist_ok=True)
    ncli = ctx.n(200, 4000)
    cl = []
    obs = []
    for j in range(ncli):
        nf = rng.choice([1, 1, 1, 2, 3])
        flags = rng.randint(1, 15)
        doprint = rng.random() < 0.6
        files = []
        argv_files = []
        for t in range(nf):
            if rng.random() < 0.05:
                files.append(None)
                argv_files.append(os.path.join(tmp, "missing"))
            else:
                c = gen_log(rng)
                p = os.path.join(tmp, "f%d" % t)
                with open(p, "wb") as f:
                    f.write(c)
                files.append(c)
                argv_files.append(p)
        opt = "-" + "".join(ch for b, ch in ((1, "F"), (2, "S"), (4, "X"), (8, "P")) if flags & b) + ("" if doprint else "n")
        rc, out, err = core.run_cmd([os.path.join(d, "robsd-regress-log"), opt] + argv_files)
        rep = core.sanitizer_report(err)
        if rep or rc not in (0, 1, 2):
            ctx.violation("robsd-regress-log: abnormal termination", dict(argv=[opt], files=[hexb(f) if f is not None else None for f in files], rc=rc, report=rep))
            continue
        cl.append("rlog main %d %d %s" % (flags, 1 if doprint else 0, " ".join("!" if f is None else hexb(f) for f in files)))
        obs.append((rc, out, opt, files, flags, doprint))
    cm = ctx.model(cl) if cl else []
    for l, m, (rc, out, opt, files, flags, doprint) in zip(cl, cm, obs):
        got = "%d %s" % (rc, hexb(out))
        if got != m:
            ctx.disagreement("RegressLog.main vs robsd-regress-log", dict(case=l, impl=got, model=m))
        if None not in files:
            want = 0 if any(oracle_exit(f, flags) == 0 for f in files) else 1
            if rc != want:
                ctx.violation("robsd-regress-log %s exit %d, expected %d" % (opt, rc, want), dict(case=l, files=[hexb(f) for f in files]))
        if not doprint and out != b"":
            ctx.violation("robsd-regress-log -n printed output", dict(case=l))
        kinds["cli-exit-%d" % rc] = kinds.get("cli-exit-%d" % rc, 0) + 1
        if rc == 0:
            distinct.add(l)
    ctx.cov.update(dict(
        evaluations=len(reqs) + len(cl), distinct_nontrivial=len(distinct),
        rule="logs of 0-17 lines drawn from leading/embedded shell-trace lines, valid and near-miss markers, outcome keywords and near-misses, "
             "plain/empty lines, NUL-containing lines, with/without trailing newline; all 15 selections (+NEWLINE flag); non-trivial = distinct case with >=1 extraction; "
             "in-process regress_log_parse/peek/trim (ASan) and the CLI with 1-3 files (incl. unreadable) compared with the model; "
             "model-free oracle: exit iff selected line after leading trace, output subsequence, every selected line present",
        samples=[dict(case=q, impl=i, model=m) for q, i, m in list(zip(reqs, impl, model))[:: max(1, len(reqs) // 5)][:5]],
        traces_validated_against_impl=len(reqs) + len(cl), outcome_kinds=kinds))
    ctx.assumptions += ["a log line is the C string up to its first NUL (buffer_getline + strlen), as modelled by Bytes.lines"]
